------------------------- MODULE LogContextConc -------------------------
(* Implementation-shaped concurrent model of fcppt::log::context (property C19), transcribed
   from libs/log/src/log/context.cpp, object.cpp, detail/context_tree_node.cpp and
   impl/find_or_create_child.cpp:

     - the context tree is a tree of (name, std::atomic level) nodes, children kept in creation
       order (push_back);  one std::mutex guards every structural access;
     - context::set      : lock; find_location_impl (find-or-create every node along the
                           location, a new child inherits its parent's current level); then
                           write the level node by node in PRE-ORDER over the sub-tree (the
                           pre-order iterator walks the live tree lazily); unlock;
     - context::get      : lock; walk down to the deepest existing prefix; read its level; unlock;
     - object::object    : TWO critical sections: find_location (lock; find-or-create along the
                           location; unlock) and find_child (lock; find-or-create the child
                           called like the object; unlock);
     - object::level / enabled : ONE atomic load of the node's level, WITHOUT the mutex.

   Threads have program counters; Acquire and Release of the mutex are separate actions.  The
   abstract sequential state of LogContext.tla (alvl, sets) is advanced at one linearisation
   point per critical section (its Acquire).  Checked (MC_LogContextConc*.cfg):
     MutualExclusion      at most one thread is inside a structural access, and it holds the mutex
     RefinesWhenFree      whenever the mutex is free the tree equals the abstract state
     LPWWhenFree          whenever the mutex is free LatestPrefixWins holds w.r.t. the order of
                          linearisation points
     LockedReturnsAtomic  a value returned by a locked operation is the value of the atomic
                          abstract operation at its linearisation point (which lies between call
                          and return by construction)
     LockFreeReadOK       a lock-free read returns a value its node held at some instant between
                          call and return (the WEAK, per-observation reading)
   NOT claimed, and shown false by MC_LogContextConc_joint.cfg (TLC must find the
   counterexample): two lock-free reads of one thread need not be explained JOINTLY by one
   sequential ordering, because set publishes the sub-tree node by node.

   Bug constants (vacuity guards): DropLockBug = find_child runs without the lock_guard;
   CachedLevelBug = an object returns the level its node had when the object was created;
   StaleParentReadBug = find_child loads the parent's level before taking the lock (no data race,
   mutual exclusion intact: only NewChildLevelOK / RefinesWhenFree / LPWWhenFree fail).
   NewChildLevelOK: every node created (by any find-or-create) gets the level LatestPrefixWins
   assigns to its path at the linearisation point of the creating critical section. *)
EXTENDS Naturals, Integers, Sequences, FiniteSets, TLC

CONSTANTS Names, MaxDepth, SetLevels, RootLevels, Objs, MaxSets, MaxOps, GenObservers,   \* of LogContext (unused here)
          SetNodeOnlyBug, InheritRootBug                                                  \* of LogContext (FALSE here)

CONSTANTS Threads,        \* set of thread ids (positive integers)
          Budget,         \* [Threads -> number of operations]
          Kinds,          \* [Threads -> subset of {"set","get","create","level"}]
          CSetLocs, CSetLevels, CGetLocs, CCreateArgs,  \* operation menus
          InitOrder,      \* initial tree: sequence of paths in creation order, root first
          InitObjs,       \* [Threads -> sequence of paths of pre-bound objects]
          CRoot,          \* root level
          DropLockBug, CachedLevelBug,
          StaleParentReadBug   \* find_child reads the parent's level (atomic load) BEFORE taking the lock

(* named values for the cfg files *)
nA == <<97>>
nB == <<98>>
CNames == {nA, nB}
TwoThreads == {1, 2}
ThreeThreads == {1, 2, 3}
Budget2 == [t \in {1, 2, 3} |-> 2]
Budget1 == [t \in {1, 2, 3} |-> 1]
Budget211 == [t \in {1, 2, 3} |-> IF t = 1 THEN 2 ELSE 1]
KindsAll == [t \in {1, 2, 3} |-> {"set", "get", "create", "level"}]
Order3 == << <<>>, <<nA>>, <<nA, nB>> >>
Order1 == << <<>> >>
ObjsAB == [t \in {1, 2, 3} |-> IF t = 1 THEN << <<nA>> >> ELSE << <<nA, nB>> >>]
NoObjs == [t \in {1, 2, 3} |-> <<>>]
SetLocs3 == {<<>>, <<nA>>, <<nA, nB>>}
SetLocs2 == {<<>>, <<nA>>}
GetLocs3 == {<<>>, <<nA, nB>>, <<nB, nA>>}
GetLocs2 == {<<nA>>, <<nA, nB>>}
CreateArgs3 == {<< <<>>, nB >>, << <<nA>>, nB >>, << <<nA>>, nA >>, << <<nB>>, nA >>}
CreateArgs2 == {<< <<nA>>, nA >>, << <<nB>>, nA >>}
(* the scenario of the joint-reading counterexample: thread 1 sets <<a>> once, thread 2 reads
   its object at <<a>> and then its object at <<a,b>> *)
BudgetJoint == [t \in {1, 2} |-> IF t = 1 THEN 1 ELSE 2]
KindsJoint == [t \in {1, 2} |-> IF t = 1 THEN {"set"} ELSE {"level"}]
ObjsJoint == [t \in {1, 2} |-> IF t = 1 THEN <<>> ELSE << <<nA>>, <<nA, nB>> >>]
SetLocsJoint == {<<nA>>}

VARIABLES lvl,      \* [existing paths -> level]   (each node's std::atomic)
          order,    \* existing paths in creation order
          mutex,    \* 0 = free, else the holder
          pc, op, cur, tmp, ret, left,
          objs,     \* [Threads -> sequence of [path, cached]]
          alvl, csets, aret,   \* ghosts: abstract state, order of linearised sets, abstract return
          seen,     \* ghost: values the node of a pending lock-free read has held since its call
          reads,    \* ghost: completed lock-free reads per thread, in program order
          bornOK    \* ghost: every node created so far got the level LatestPrefixWins assigns to its path
                    \*        at the linearisation point of the critical section that created it

cvars == <<lvl, order, mutex, pc, op, cur, tmp, ret, left, objs, alvl, csets, aret, seen, reads, bornOK>>

(* the sequential specification, instantiated on the concrete tree and the ghost order of sets *)
LC == INSTANCE LogContext WITH st <- [lvl |-> lvl, root |-> CRoot, obj |-> <<>>, lf |-> <<>>],
                               sets <- csets, hist <- <<>>
IsPrefix(p, q) == LC!IsPrefix(p, q)
SetOp(lv, loc, l) == LC!SetOp(lv, loc, l)
Ensure(lv, path) == LC!Ensure(lv, path)
GetOp(lv, loc) == LC!GetOp(lv, loc)
DeepestPrefix(lv, loc) == LC!DeepestPrefix(lv, loc)
NoRet == LC!NoRet
LevelRange == LC!LevelRange

Structural == {"s_find", "s_walk", "g_walk", "c_find", "c_child1", "c_child2"}

Children(ord, p) == SelectSeq(ord, LAMBDA q : Len(q) = Len(p) + 1 /\ IsPrefix(p, q))
RECURSIVE PreOrderSeq(_, _)
RECURSIVE PreOrderKids(_, _, _)
PreOrderKids(ord, ks, i) == IF i > Len(ks) THEN <<>> ELSE PreOrderSeq(ord, ks[i]) \o PreOrderKids(ord, ks, i + 1)
PreOrderSeq(ord, p) == <<p>> \o PreOrderKids(ord, Children(ord, p), 1)
IndexOf(s, x) == CHOOSE i \in 1..Len(s) : s[i] = x

Idle0 == [op |-> "", loc |-> <<>>, l |-> 0, name |-> <<>>, k |-> 0]

CInit ==
  /\ lvl = [p \in {InitOrder[i] : i \in 1..Len(InitOrder)} |-> CRoot]
  /\ order = InitOrder
  /\ mutex = 0
  /\ pc = [t \in Threads |-> "idle"]
  /\ op = [t \in Threads |-> Idle0]
  /\ cur = [t \in Threads |-> <<>>]
  /\ tmp = [t \in Threads |-> 0]
  /\ ret = [t \in Threads |-> NoRet]
  /\ left = [t \in Threads |-> Budget[t]]
  /\ objs = [t \in Threads |-> [i \in 1..Len(InitObjs[t]) |-> [path |-> InitObjs[t][i], cached |-> CRoot]]]
  /\ alvl = lvl
  /\ csets = <<>>
  /\ aret = [t \in Threads |-> NoRet]
  /\ seen = [t \in Threads |-> {}]
  /\ reads = [t \in Threads |-> <<>>]
  /\ bornOK = TRUE

-----------------------------------------------------------------------------
(* call: pick the next operation *)
Call(t) ==
  /\ pc[t] = "idle" /\ left[t] > 0
  /\ left' = [left EXCEPT ![t] = @ - 1]
  /\ \/ \E p \in CSetLocs, l \in CSetLevels :
          /\ "set" \in Kinds[t]
          /\ op' = [op EXCEPT ![t] = [Idle0 EXCEPT !.op = "set", !.loc = p, !.l = l]]
          /\ pc' = [pc EXCEPT ![t] = "s_acq"]
          /\ UNCHANGED seen
     \/ \E p \in CGetLocs :
          /\ "get" \in Kinds[t]
          /\ op' = [op EXCEPT ![t] = [Idle0 EXCEPT !.op = "get", !.loc = p]]
          /\ pc' = [pc EXCEPT ![t] = "g_acq"]
          /\ UNCHANGED seen
     \/ \E a \in CCreateArgs :
          /\ "create" \in Kinds[t]
          /\ op' = [op EXCEPT ![t] = [Idle0 EXCEPT !.op = "create", !.loc = a[1], !.name = a[2]]]
          /\ pc' = [pc EXCEPT ![t] = "c_acq1"]
          /\ UNCHANGED seen
     \/ \E k \in 1..Len(objs[t]) :
          /\ "level" \in Kinds[t]
          /\ op' = [op EXCEPT ![t] = [Idle0 EXCEPT !.op = "level", !.k = k]]
          /\ pc' = [pc EXCEPT ![t] = "r_read"]
          \* the call instant: from now on every value the node holds is a legitimate answer
          /\ seen' = [seen EXCEPT ![t] = {lvl[objs[t][k].path]}]
  /\ UNCHANGED <<lvl, order, mutex, cur, tmp, ret, objs, alvl, csets, aret, reads, bornOK>>

(* a write of node p is seen by every pending lock-free read of p *)
SeenAfterWrite(p, v) ==
  [u \in Threads |-> IF pc[u] = "r_read" /\ objs[u][op[u].k].path = p THEN seen[u] \cup {v} ELSE seen[u]]

-----------------------------------------------------------------------------
(* context::set *)
SAcquire(t) ==
  /\ pc[t] = "s_acq" /\ mutex = 0
  /\ mutex' = t
  /\ cur' = [cur EXCEPT ![t] = <<>>]
  /\ pc' = [pc EXCEPT ![t] = "s_find"]
  \* linearisation point
  /\ alvl' = SetOp(alvl, op[t].loc, op[t].l)
  /\ csets' = Append(csets, [loc |-> op[t].loc, l |-> op[t].l])
  /\ UNCHANGED <<lvl, order, op, tmp, ret, left, objs, aret, seen, reads, bornOK>>

(* one find_or_create_child per step, shared by set and the first critical section of create *)
FindStep(t, here, next) ==
  /\ pc[t] = here
  /\ IF cur[t] = op[t].loc
     THEN /\ pc' = [pc EXCEPT ![t] = next]
          /\ UNCHANGED <<lvl, order, cur>>
     ELSE LET child == SubSeq(op[t].loc, 1, Len(cur[t]) + 1) IN
          /\ IF child \in DOMAIN lvl THEN UNCHANGED <<lvl, order>>
             ELSE /\ lvl' = lvl @@ (child :> lvl[cur[t]])
                  /\ order' = Append(order, child)
          /\ cur' = [cur EXCEPT ![t] = child]
          /\ UNCHANGED pc
  /\ bornOK' = (bornOK /\ \A p \in DOMAIN lvl' \ DOMAIN lvl : lvl'[p] = LC!Latest(csets, CRoot, p))
  /\ UNCHANGED <<mutex, op, tmp, ret, left, objs, alvl, csets, aret, seen, reads>>

SWalk(t) ==
  /\ pc[t] = "s_walk"
  /\ lvl' = [lvl EXCEPT ![cur[t]] = op[t].l]       \* one atomic store
  /\ seen' = SeenAfterWrite(cur[t], op[t].l)
  /\ LET po == PreOrderSeq(order, op[t].loc)
         i == IndexOf(po, cur[t])
     IN IF i < Len(po)
        THEN cur' = [cur EXCEPT ![t] = po[i + 1]] /\ UNCHANGED pc
        ELSE pc' = [pc EXCEPT ![t] = "s_rel"] /\ UNCHANGED cur
  /\ UNCHANGED <<order, mutex, op, tmp, ret, left, objs, alvl, csets, aret, reads, bornOK>>

Release(t, here, next) ==
  /\ pc[t] = here
  /\ mutex' = IF mutex = t THEN 0 ELSE mutex
  /\ pc' = [pc EXCEPT ![t] = next]
  /\ UNCHANGED <<lvl, order, op, cur, tmp, ret, left, objs, alvl, csets, aret, seen, reads, bornOK>>

-----------------------------------------------------------------------------
(* context::get *)
GAcquire(t) ==
  /\ pc[t] = "g_acq" /\ mutex = 0
  /\ mutex' = t
  /\ pc' = [pc EXCEPT ![t] = "g_walk"]
  /\ aret' = [aret EXCEPT ![t] = GetOp(alvl, op[t].loc)]      \* linearisation point
  /\ UNCHANGED <<lvl, order, op, cur, tmp, ret, left, objs, alvl, csets, seen, reads, bornOK>>

GWalk(t) ==
  /\ pc[t] = "g_walk"
  /\ ret' = [ret EXCEPT ![t] = lvl[DeepestPrefix(lvl, op[t].loc)]]
  /\ pc' = [pc EXCEPT ![t] = "g_rel"]
  /\ UNCHANGED <<lvl, order, mutex, op, cur, tmp, left, objs, alvl, csets, aret, seen, reads, bornOK>>

-----------------------------------------------------------------------------
(* object::object(context, location, parameters) *)
CAcquire1(t) ==
  /\ pc[t] = "c_acq1" /\ mutex = 0
  /\ mutex' = t
  /\ cur' = [cur EXCEPT ![t] = <<>>]
  /\ pc' = [pc EXCEPT ![t] = "c_find"]
  /\ alvl' = Ensure(alvl, op[t].loc)                            \* linearisation point
  /\ UNCHANGED <<lvl, order, op, tmp, ret, left, objs, csets, aret, seen, reads, bornOK>>

(* end of find_location; with StaleParentReadBug the (atomic, race-free) load of the parent's level
   that find_or_create_child performs happens here, before the second lock is taken *)
CRelease1(t) ==
  /\ pc[t] = "c_rel1"
  /\ mutex' = IF mutex = t THEN 0 ELSE mutex
  /\ pc' = [pc EXCEPT ![t] = "c_acq2"]
  /\ tmp' = IF StaleParentReadBug THEN [tmp EXCEPT ![t] = lvl[op[t].loc]] ELSE tmp
  /\ UNCHANGED <<lvl, order, op, cur, ret, left, objs, alvl, csets, aret, seen, reads, bornOK>>

CAcquire2(t) ==
  /\ pc[t] = "c_acq2"
  /\ IF DropLockBug THEN UNCHANGED mutex ELSE mutex = 0 /\ mutex' = t
  /\ pc' = [pc EXCEPT ![t] = "c_child1"]
  /\ alvl' = Ensure(alvl, Append(op[t].loc, op[t].name))        \* linearisation point
  /\ UNCHANGED <<lvl, order, op, cur, tmp, ret, left, objs, csets, aret, seen, reads, bornOK>>

(* find_or_create_child, first half: search the children, read the parent's level *)
CChild1(t) ==
  /\ pc[t] = "c_child1"
  /\ tmp' = IF StaleParentReadBug THEN tmp ELSE [tmp EXCEPT ![t] = lvl[op[t].loc]]
  /\ pc' = [pc EXCEPT ![t] = IF Append(op[t].loc, op[t].name) \in DOMAIN lvl THEN "c_rel2" ELSE "c_child2"]
  /\ UNCHANGED <<lvl, order, mutex, op, cur, ret, left, objs, alvl, csets, aret, seen, reads, bornOK>>

(* second half: push_back the new child *)
CChild2(t) ==
  /\ pc[t] = "c_child2"
  /\ LET child == Append(op[t].loc, op[t].name) IN
     IF child \in DOMAIN lvl THEN UNCHANGED <<lvl, order>>    \* (only with DropLockBug) duplicate child: keep the first
     ELSE lvl' = lvl @@ (child :> tmp[t]) /\ order' = Append(order, child)
  /\ bornOK' = (bornOK /\ \A p \in DOMAIN lvl' \ DOMAIN lvl : lvl'[p] = LC!Latest(csets, CRoot, p))
  /\ pc' = [pc EXCEPT ![t] = "c_rel2"]
  /\ UNCHANGED <<mutex, op, cur, tmp, ret, left, objs, alvl, csets, aret, seen, reads>>

CRelease2(t) ==
  /\ pc[t] = "c_rel2"
  /\ mutex' = IF mutex = t /\ ~DropLockBug THEN 0 ELSE mutex
  /\ LET child == Append(op[t].loc, op[t].name) IN
     objs' = [objs EXCEPT ![t] = Append(@, [path |-> child, cached |-> lvl[child]])]
  /\ pc' = [pc EXCEPT ![t] = "ret"]
  /\ UNCHANGED <<lvl, order, op, cur, tmp, ret, left, alvl, csets, aret, seen, reads, bornOK>>

-----------------------------------------------------------------------------
(* object::level(): one atomic load, no mutex *)
RRead(t) ==
  /\ pc[t] = "r_read"
  /\ LET o == objs[t][op[t].k] IN
     ret' = [ret EXCEPT ![t] = IF CachedLevelBug THEN o.cached ELSE lvl[o.path]]
  /\ pc' = [pc EXCEPT ![t] = "ret"]
  /\ UNCHANGED <<lvl, order, mutex, op, cur, tmp, left, objs, alvl, csets, aret, seen, reads, bornOK>>

Return(t) ==
  /\ pc[t] = "ret"
  /\ pc' = [pc EXCEPT ![t] = "idle"]
  /\ reads' = IF op[t].op = "level"
              THEN [reads EXCEPT ![t] = Append(@, [path |-> objs[t][op[t].k].path, val |-> ret[t]])]
              ELSE reads
  /\ op' = [op EXCEPT ![t] = Idle0]
  /\ ret' = [ret EXCEPT ![t] = NoRet]
  /\ aret' = [aret EXCEPT ![t] = NoRet]
  /\ seen' = [seen EXCEPT ![t] = {}]
  /\ UNCHANGED <<lvl, order, mutex, cur, tmp, left, objs, alvl, csets, bornOK>>

CNext ==
  \E t \in Threads :
    \/ Call(t)
    \/ SAcquire(t) \/ FindStep(t, "s_find", "s_walk") \/ SWalk(t) \/ Release(t, "s_rel", "ret")
    \/ GAcquire(t) \/ GWalk(t) \/ Release(t, "g_rel", "ret")
    \/ CAcquire1(t) \/ FindStep(t, "c_find", "c_rel1") \/ CRelease1(t)
    \/ CAcquire2(t) \/ CChild1(t) \/ CChild2(t) \/ CRelease2(t)
    \/ RRead(t)
    \/ Return(t)

CSpec == CInit /\ [][CNext]_cvars

-----------------------------------------------------------------------------
CTypeOK ==
  /\ mutex \in Threads \cup {0}
  /\ \A p \in DOMAIN lvl : lvl[p] \in LevelRange
  /\ {order[i] : i \in 1..Len(order)} = DOMAIN lvl
  /\ \A t \in Threads : \A k \in 1..Len(objs[t]) : objs[t][k].path \in DOMAIN lvl

MutualExclusion ==
  /\ Cardinality({t \in Threads : pc[t] \in Structural}) <= 1
  /\ \A t \in Threads : pc[t] \in Structural => mutex = t

RefinesWhenFree == mutex = 0 => lvl = alvl

LPWWhenFree == mutex = 0 => LC!LatestPrefixWins

(* object creation racing with set: a newly created node (by set's / create's find_location or by
   find_child) carries exactly the level that LatestPrefixWins assigns to its path at the
   linearisation point of the creating critical section (the lock is held from there to the
   push_back, so csets is the same at both) *)
NewChildLevelOK == bornOK

LockedReturnsAtomic ==
  \A t \in Threads : pc[t] = "ret" /\ op[t].op = "get" => ret[t] = aret[t]

LockFreeReadOK ==
  \A t \in Threads : pc[t] = "ret" /\ op[t].op = "level" => ret[t] \in seen[t]

(* no deadlock other than termination *)
Terminated == \A t \in Threads : pc[t] = "idle" /\ left[t] = 0
NoDeadlock == Terminated \/ ENABLED CNext

(* The STRONG joint reading, valid for sequential orderings when a single set (loc, l) with
   l # CRoot happens in the whole run: once a thread has read l from a node below loc, every
   later read of a node below loc by that thread returns l.  FALSE for the real algorithm. *)
JointSequential ==
  \A t \in Threads : \A i \in 1..Len(reads[t]) : \A j \in 1..Len(reads[t]) :
    \A p \in CSetLocs : \A l \in CSetLevels :
      (i < j /\ l # CRoot /\ IsPrefix(p, reads[t][i].path) /\ IsPrefix(p, reads[t][j].path)
         /\ reads[t][i].val = l)
      => reads[t][j].val = l
=============================================================================
