----------------------------- MODULE FixedWidth -----------------------------
(* The eight fixed-width integer types of C++ (std::int8_t ... std::uint64_t)
   as used by fcppt::cast / fcppt::math / fcppt::enum_ (property C06).

   A type is named by a string.  Its width comes from BitsTable, which a model
   configuration may override (cfg: BitsTable <- ScaledBits) in order to
   model-check the *whole* family of 64 (source, destination) pairs on a scaled
   family whose values fit a finite enumeration (the overload selection of
   truncation_check only depends on signedness and on the order of the widths).

   Min/Max/Wrap are ordinary integers and therefore only defined here for
   widths <= 30 (TLC integers are 32-bit); the judge handles 32/64-bit operands
   through BigNat.tla / IntMathWide.tla.                                        *)
EXTENDS Integers, Sequences, TLC

Types == {"i8", "u8", "i16", "u16", "i32", "u32", "i64", "u64"}
SignedTypes == {"i8", "i16", "i32", "i64"}
UnsignedTypes == Types \ SignedTypes

(* "f @@ <<>>" makes TLC tabulate the function once instead of re-evaluating the body at every
   application (TLC keeps [x \in S |-> e] as a closure) *)
Tabulated(fn) == fn @@ <<>>

RealBits == Tabulated([t \in Types |->
  CASE t \in {"i8", "u8"} -> 8 [] t \in {"i16", "u16"} -> 16
    [] t \in {"i32", "u32"} -> 32 [] OTHER -> 64])
(* scaled family: same order of widths, same signedness, "int" (= i32) is 6 bits *)
ScaledBits == Tabulated([t \in Types |->
  CASE t \in {"i8", "u8"} -> 3 [] t \in {"i16", "u16"} -> 4
    [] t \in {"i32", "u32"} -> 6 [] OTHER -> 8])

BitsTable == RealBits
Bits(T) == BitsTable[T]
Signed(T) == T \in SignedTypes

UnsignedOf(T) == CASE T \in {"i8", "u8"} -> "u8" [] T \in {"i16", "u16"} -> "u16"
                   [] T \in {"i32", "u32"} -> "u32" [] OTHER -> "u64"
SignedOf(T) == CASE T \in {"i8", "u8"} -> "i8" [] T \in {"i16", "u16"} -> "i16"
                 [] T \in {"i32", "u32"} -> "i32" [] OTHER -> "i64"

(* 2^n for 0 <= n <= 30.  A literal table: TLC pre-computes constant definitions only when they do
   not involve RECURSIVE operators. *)
P2T == <<1, 2, 4, 8, 16, 32, 64, 128, 256, 512, 1024, 2048, 4096, 8192, 16384, 32768, 65536, 131072,
         262144, 524288, 1048576, 2097152, 4194304, 8388608, 16777216, 33554432, 67108864,
         134217728, 268435456, 536870912, 1073741824>>
P2 == Tabulated([n \in 0..30 |-> P2T[n + 1]])

Small(T) == Bits(T) <= 30   \* values of T are TLC integers

MinTab == Tabulated([t \in Types |-> IF BitsTable[t] > 30 THEN 0 ELSE IF t \in SignedTypes THEN -P2[BitsTable[t] - 1] ELSE 0])
MaxTab == Tabulated([t \in Types |-> IF BitsTable[t] > 30 THEN -1 ELSE
                            IF t \in SignedTypes THEN P2[BitsTable[t] - 1] - 1 ELSE (P2[BitsTable[t] - 1] - 1) * 2 + 1])
ModTab == Tabulated([t \in Types |-> IF BitsTable[t] > 30 THEN 0 ELSE P2[BitsTable[t]]])

Min(T) == MinTab[T]
Max(T) == MaxTab[T]
Values(T) == Min(T)..Max(T)
Representable(T, x) == Min(T) <= x /\ x <= Max(T)
(* for a type whose values are not TLC integers (real int and wider): the small values that arise
   from 8/16-bit operands always fit *)
Fits(T, x) == IF Small(T) THEN Representable(T, x) ELSE TRUE

(* static_cast<T>(x): reduction modulo 2^Bits(T) into the range of T *)
Wrap(T, x) ==
  LET y == x % ModTab[T] IN
  IF T \in SignedTypes /\ y > MaxTab[T] THEN y - ModTab[T] ELSE y

(* Integer promotion: every type of rank below int is converted to int (all its
   values fit); other types are unchanged. *)
Promoted(T) == IF Bits(T) < Bits("i32") THEN "i32" ELSE T

(* optional values as logged in JSON: [] / [x] *)
None == <<>>
Some(x) == <<x>>

Abs(x) == IF x < 0 THEN -x ELSE x
Min2(x, y) == IF x <= y THEN x ELSE y
Max2(x, y) == IF x >= y THEN x ELSE y
=============================================================================
