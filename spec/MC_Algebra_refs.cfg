SPECIFICATION Spec
CONSTANTS
  N = 3
  Bug = "none"
  Group = "refs"
  MaxLen = 0
INVARIANTS TypeOK LawPointerRoundTrip LawCopyValue
