SPECIFICATION Spec
CONSTANTS
  N = 2
  Rad = 1
  Bug = 6
  OldDistance = FALSE
CHECK_DEADLOCK FALSE
INVARIANTS ContainsLaw
