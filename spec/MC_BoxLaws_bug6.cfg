SPECIFICATION Spec
CONSTANTS
  N = 2
  Lo = -1
  Hi = 1
  Bug = 6
INVARIANTS ContainsLaw
