--------------------------- MODULE MC_BitfieldImpl ---------------------------
(* Model-checking root for BitfieldImpl: the three constants come from the
   environment so that one configuration serves every (enum size, word width, bug)
   combination the check runs:
     BF_N=9 BF_W=8 BF_BUG=none BF_FULL=0 java ... tlc2.TLC -config MC_BitfieldImpl.cfg MC_BitfieldImpl *)
EXTENDS BitfieldImpl, IOUtils
EnvN == atoi(IOEnv.BF_N)
EnvW == atoi(IOEnv.BF_W)
EnvBug == IOEnv.BF_BUG
EnvFull == IOEnv.BF_FULL = "1"
=============================================================================
