SPECIFICATION SpecMap
CONSTANTS
  MaxLen = 4
  SetMax = 3
  JoinMap <- JoinMapRightBiased
INVARIANT MapLawsAssoc
