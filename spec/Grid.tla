------------------------------- MODULE Grid -------------------------------
(* Reference definitions for fcppt::container::grid (property C08).

   Positions, dimensions, min and sup are tuples of N integers (index 1 = x,
   the fastest running coordinate).  A grid is a record
        [size |-> <<e1..eN>>, cell |-> [Positions(size) -> Int]].
   Everything here is written from the documentation
   (doc/files/modules/container/grid.doxygen, the \brief texts of the
   headers) - not from the loops of the implementation:

   * a range (min, sup) denotes the positions p with min <= p < sup in every
     coordinate and "is empty if at least one element of min is greater or
     equal to the corresponding element in sup";
   * the layout is linear / row-major / slice-major: x runs fastest;
   * resize: g[p] = old[p] if p is also a position of old, else init(p);
   * map: r[p] = f(g[p]);  apply: r[p] = f(g1[p],..,gn[p]) if all sizes are
     equal, else the empty grid;  fill: g[p] = f(p);
   * clamped_min = max(p,0), clamped_sup = min(p,size),
     clamped_sup_signed = clamp(p,0,size), component-wise;
   * at_optional: the element iff the position is in range. *)
EXTENDS Integers, Sequences, FiniteSets, SequencesExt, TLC

Idx(v) == 1..Len(v)

Max2(a, b) == IF a >= b THEN a ELSE b
Min2(a, b) == IF a <= b THEN a ELSE b

RECURSIVE ProdTo(_, _)
(* v[1] * ... * v[k] *)
ProdTo(v, k) == IF k = 0 THEN 1 ELSE v[k] * ProdTo(v, k - 1)

Content(size) == ProdTo(size, Len(size))

RECURSIVE SumTo(_, _)
SumTo(v, k) == IF k = 0 THEN 0 ELSE v[k] + SumTo(v, k - 1)

Zero(n) == [i \in 1..n |-> 0]

(* ---- position sets ---------------------------------------------------- *)

RECURSIVE BoxTo(_, _, _)
BoxTo(min, sup, k) ==
  IF k = 0 THEN {<<>>}
  ELSE {Append(q, x) : q \in BoxTo(min, sup, k - 1), x \in min[k]..(sup[k] - 1)}

(* the positions p with min <= p < sup component-wise *)
RangeSet(min, sup) == BoxTo(min, sup, Len(min))

(* the documentation's wording, used as a law:  RangeSet = RangeSetDoc *)
MinLessSup(min, sup) == \A i \in Idx(min) : min[i] < sup[i]
RangeSetDoc(min, sup, universe) ==
  IF \E i \in Idx(min) : min[i] >= sup[i] THEN {}
  ELSE {p \in universe : \A i \in Idx(min) : min[i] <= p[i] /\ p[i] < sup[i]}

Positions(size) == RangeSet(Zero(Len(size)), size)

InRange(p, size) == \A i \in Idx(size) : 0 <= p[i] /\ p[i] < size[i]

(* number of positions of a range, by formula *)
RangeCount(min, sup) ==
  IF MinLessSup(min, sup) THEN ProdTo([i \in Idx(min) |-> sup[i] - min[i]], Len(min)) ELSE 0

(* ---- linear offset ---------------------------------------------------- *)

(* sum over i of p[i] * (size[1] * .. * size[i-1]) *)
Offset(p, size) == SumTo([i \in Idx(p) |-> p[i] * ProdTo(size, i - 1)], Len(p))

(* the same with the stride taken from the *current* extent (a classic slip);
   only used by the vacuity guard of the bijection law *)
OffsetWrongStride(p, size) ==
  SumTo([i \in Idx(p) |-> p[i] * ProdTo([j \in 1..(i - 1) |-> size[j + 1]], i - 1)], Len(p))

OffsetBijection(size, Off(_, _)) ==
  LET P == Positions(size) IN
  /\ \A p \in P : Off(p, size) \in 0..(Content(size) - 1)
  /\ \A p, q \in P : Off(p, size) = Off(q, size) => p = q
  /\ {Off(p, size) : p \in P} = 0..(Content(size) - 1)
  /\ Cardinality(P) = Content(size)

(* ---- storage order ---------------------------------------------------- *)

(* p comes before q in storage order: the highest differing coordinate decides *)
Less(p, q) == \E i \in Idx(p) : p[i] < q[i] /\ \A j \in (i + 1)..Len(p) : p[j] = q[j]

(* the sequence of a position set in storage order, x fastest *)
RowMajor(S) == SetToSortSeq(S, Less)

(* ---- grids ------------------------------------------------------------ *)

GridOf(size, F(_)) == [size |-> size, cell |-> [p \in Positions(size) |-> F(p)]]
EmptyGrid(n) == [size |-> Zero(n), cell |-> [p \in {} |-> 0]]

(* storage sequence of a grid: element k (1-based) is the cell with offset k-1 *)
Storage(g) == LET rm == RowMajor(DOMAIN g.cell) IN [k \in 1..Len(rm) |-> g.cell[rm[k]]]

AtOptional(g, p) == IF InRange(p, g.size) THEN <<g.cell[p]>> ELSE <<>>

Resize(g, nsize, InitF(_)) ==
  GridOf(nsize, LAMBDA p : IF p \in DOMAIN g.cell THEN g.cell[p] ELSE InitF(p))

MapGrid(g, F(_)) == GridOf(g.size, LAMBDA p : F(g.cell[p]))

(* gs: non-empty sequence of grids; F takes the sequence of the cells at p *)
ApplyGrids(gs, F(_)) ==
  IF \A k \in 1..Len(gs) : gs[k].size = gs[1].size
  THEN GridOf(gs[1].size, LAMBDA p : F([k \in 1..Len(gs) |-> gs[k].cell[p]]))
  ELSE EmptyGrid(Len(gs[1].size))

FillGrid(g, F(_)) == GridOf(g.size, F)

ClampedMin(p) == [i \in Idx(p) |-> Max2(p[i], 0)]
ClampedSup(p, size) == [i \in Idx(p) |-> Min2(p[i], size[i])]
ClampedSupSigned(p, size) == [i \in Idx(p) |-> Min2(Max2(p[i], 0), size[i])]

(* affine functions of a position / of a sequence of values, given by their
   coefficients: the functions the harness passes to the library *)
Lin(c, p) == c[1] + SumTo([i \in Idx(p) |-> c[i + 1] * p[i]], Len(p))
Comb(c, xs) == SumTo([i \in Idx(xs) |-> c[i] * xs[i]], Len(xs))

(* ---- extension: interpolate, spiral x grid ------------------------------------ *)
(* grid::interpolate with the linear interpolator ("The latter will determine what kind of
   interpolation is used (linear, ...)", example: "Will bilinearly interpolate ALL the grid
   points"): multilinear interpolation of the 2^N cells around the position.  Positions are
   given in quarters (q = 4 * position); the result is scaled by 4^N so that it is an integer:
       sum over corner sets s of  prod_i (i in s ? frac_i : 4 - frac_i) * g[floor + 1_s] *)
AbsD(x) == IF x < 0 THEN -x ELSE x
InterpScaled(g, q) ==
  LET n == Len(q)
      fl == [i \in 1..n |-> q[i] \div 4]
      fr == [i \in 1..n |-> q[i] % 4]
      subs == SetToSeq(SUBSET (1..n))
      term(s) == ProdTo([i \in 1..n |-> IF i \in s THEN fr[i] ELSE 4 - fr[i]], n)
                 * g.cell[[i \in 1..n |-> IF i \in s THEN fl[i] + 1 ELSE fl[i]]]
  IN SumTo([k \in 1..Len(subs) |-> term(subs[k])], Len(subs))
InterpPre(size, q) == \A i \in 1..Len(q) : q[i] >= 0 /\ q[i] \div 4 + 1 < size[i]

Manhattan2(p, o) == AbsD(p[1] - o[1]) + AbsD(p[2] - o[2])
=============================================================================
