SPECIFICATION Spec
CONSTANTS
  N = 2
  Rad = 1
  Bug = 7
CHECK_DEADLOCK FALSE
INVARIANTS ExtendLaw
