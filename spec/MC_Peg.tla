------------------------------ MODULE MC_Peg ------------------------------
(* Model-level theorems of the PEG semantics (spec/Peg.tla), checked over the generated grammar
   family (grammars.json, env GRAMMARS), every skipper a grammar is run under, all inputs up to
   MaxLen over Sym - enumerated as initial states - and, inside the invariant, every subterm of
   the grammar at every entry position of the input.  These are the clauses of the property
   statement read as theorems of the specification: if they hold of the spec and the real code
   agrees with the spec on every recorded parse, the code has them on the explored family. *)
EXTENDS Peg, Json, IOUtils

CONSTANTS Sym, MaxLen

G == JsonDeserialize(IOEnv.GRAMMARS)
AllG == [i \in 1..(Len(G.grammars) + Len(G.recursive)) |->
           IF i <= Len(G.grammars) THEN G.grammars[i] ELSE G.recursive[i - Len(G.grammars)]]

VARIABLES gi, ski, s, ph
vars == <<gi, ski, s, ph>>

Inputs == UNION {[1..k -> Sym] : k \in 0..MaxLen}

(* one initial state per grammar; its successors are all (skipper, input) pairs - so that TLC's
   workers share the evaluation of the invariants *)
Init ==
  /\ gi \in 1..Len(AllG)
  /\ ski = 1
  /\ s = <<>>
  /\ ph = 0
Next ==
  /\ ph = 0
  /\ ph' = 1
  /\ gi' = gi
  /\ ski' \in 1..Len(AllG[gi].sks)
  /\ s' \in Inputs
Spec == Init /\ [][Next]_vars

Gr == AllG[gi]
Sk == G.skippers[Gr.sks[ski]]
Probe99 == [k |-> "probe", id |-> 99, ty |-> TUnit]
P99(p) == <<99, p, Line(s, p), Col(s, p)>>

(* subterms, including the bodies of the productions of a recursive grammar *)
Subs == Subterms(Gr.g) \cup UNION {Subterms(Gr.ps[n]) : n \in DOMAIN Gr.ps}

SubLaws(h, p) ==
  LET r == Parse(h, Sk, s, p, Gr.ps) IN
  \* the position never moves backwards and stays inside the input
  /\ r.ok => (p <= r.pos /\ r.pos <= Len(s))
  \* negative lookahead consumes nothing and succeeds exactly when the operand fails
  /\ h.k = "not" => /\ (r.ok => r.pos = p)
                    /\ r.ok = ~Parse(h.g, Sk, s, p, Gr.ps).ok
                    /\ (~r.ok => ~r.fatal)
  \* repetitions, optionals and separators never fail without a fatal error
  /\ h.k \in {"rep", "opt", "sep"} => (~r.ok => r.fatal)
  \* optional: a non-fatal failure of the operand restores the entry position
  /\ h.k = "opt" => LET e == Parse(h.g, Sk, s, p, Gr.ps) IN
                    /\ (~e.ok /\ ~e.fatal) => (r.ok /\ r.pos = p)
                    /\ (~e.ok /\ e.fatal) => (~r.ok /\ r.fatal)
                    /\ e.ok => (r.ok /\ r.pos = e.pos)
  \* repetition is greedy and ends at a committed position: from there the element (followed by
  \* the skipper) cannot be parsed again; if the very first element fails the entry position is kept
  /\ h.k = "rep" => LET e == Parse(h.g, Sk, s, p, Gr.ps) IN
                    /\ (~e.ok /\ ~e.fatal) => (r.ok /\ r.pos = p)
                    /\ r.ok => LET f == Parse(h.g, Sk, s, r.pos, Gr.ps) IN
                               ~f.ok \/ ~Skip(Sk, s, f.pos).ok \/ Skip(Sk, s, f.pos).pos = r.pos
  \* ordered choice: the left result wins; after a non-fatal left failure the right side starts at
  \* the entry position (observed through a probe placed in front of it); a fatal left failure
  \* stops: the right side is never entered
  /\ h.k = "alt" => LET l == Parse(h.l, Sk, s, p, Gr.ps)
                        w == Parse([h EXCEPT !.r = MkSeq(Probe99, h.r)], Sk, s, p, Gr.ps)
                    IN /\ l.ok => (r.ok /\ r.pos = l.pos /\ w.probes = l.probes)
                       /\ (~l.ok /\ l.fatal) => (~r.ok /\ r.fatal /\ w.probes = l.probes)
                       /\ (~l.ok /\ ~l.fatal) => /\ Len(w.probes) > Len(l.probes)
                                                 /\ w.probes[Len(l.probes) + 1] = P99(p)
  \* fatal: every failure is fatal, successes are untouched
  /\ h.k = "fatal" => (~r.ok => r.fatal)
  \* the fatal flag passes unchanged through the combinators that only map values or change the
  \* skipper ("Errors remain unchanged": convert.hpp, convert_const, construct, convert_if for the
  \* operand's errors; lexeme, ignore, recursive, base forward the operand's result)
  /\ h.k \in {"lexeme", "ignore", "recursive", "base", "conv", "cconst", "convif"} =>
       LET e == Parse(h.g, IF h.k = "lexeme" THEN EpsSk ELSE Sk, s, p, Gr.ps) IN
       ~e.ok => (~r.ok /\ r.fatal = e.fatal /\ r.locs = e.locs /\ r.probes = e.probes)
  \* sequence: "the first error is returned" - with its fatal flag
  /\ h.k = "seq" => LET l == Parse(h.l, Sk, s, p, Gr.ps) IN ~l.ok => r = l
  \* every location an error must carry is the location after some character of the input, and a
  \* success carries none; a one-character literal / char_set failing on a character reports the
  \* location immediately after it
  /\ \A i \in 1..Len(r.locs) : r.locs[i] = MayLoc \/ \E o \in 1..Len(s) : r.locs[i] = <<Line(s, o), Col(s, o)>>
  /\ r.ok => r.locs = <<>>
  /\ (h.k \in {"lit", "cset"} /\ ~r.ok /\ p < Len(s)) => r.locs = <<LocAfter(s, p)>>
  \* ordered choice, errors: both sides failing non-fatally gives the left error then the right one
  /\ h.k = "alt" => LET l == Parse(h.l, Sk, s, p, Gr.ps)
                        q == Parse(h.r, Sk, s, p, Gr.ps)
                    IN (~l.ok /\ ~l.fatal /\ ~q.ok /\ ~q.fatal) => (~r.ok /\ ~r.fatal /\ r.locs = l.locs \o q.locs)

Laws == ph = 1 => \A h \in Subs : \A p \in 0..Len(s) : SubLaws(h, p)

(* the string entry points succeed iff the parser succeeds after the initial skipper run and
   consumes the whole input *)
EntryLaw ==
  ph = 1 =>
  LET k == Skip(Sk, s, 0)
      e == Run("string", Gr.g, Sk, s, Gr.ps)
      t == Run("stream", Gr.g, Sk, s, Gr.ps)
      b == Run("bad", Gr.g, Sk, s, Gr.ps)
  IN /\ e.ok = (k.ok /\ LET r == Parse(Gr.g, Sk, s, k.pos, Gr.ps) IN r.ok /\ r.pos = Len(s))
     \* the stream entry points differ only by the missing remaining-input check
     /\ e.ok => (t.ok /\ t.val = e.val)
     /\ t.ok = (k.ok /\ Parse(Gr.g, Sk, s, k.pos, Gr.ps).ok)
     /\ t.probes = e.probes /\ b.probes = e.probes
     \* a stream that turns bad never yields a success
     /\ ~b.ok

(* static well-formedness of the generated family: the generator's types are the PegTypes types,
   the library's static requirements hold, no repetition of a nullable parser, repetitions only
   under skippers that cannot fail *)
FamilyOK ==
  ph = 1 =>
  /\ \A h \in Subs : h.ty = TyOf(h) /\ ArgsOK(h)
  /\ NoNullableRep(Gr.g) /\ \A n \in DOMAIN Gr.ps : NoNullableRep(Gr.ps[n])
  /\ Gr.sks[ski] \in DOMAIN G.skippers
=============================================================================
