SPECIFICATION Spec
CONSTANTS
  N = 3
  Bug = "none"
  Group = "optapp"
  MaxLen = 0
INVARIANTS TypeOK LawOptApplyIsBindMap LawOptApplyHomomorphism LawMaybeMulti LawCombine LawAlternative
