SPECIFICATION Spec
CONSTANTS
  NS = 2
  Val = {0, 1}
  MaxNodes = 7
VIEW View
INVARIANTS TypeOK GeneratorSound Laws
CHECK_DEADLOCK FALSE
