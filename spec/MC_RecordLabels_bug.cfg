SPECIFICATION Spec
CONSTANT LabelBug = "set_wrong_label"
INVARIANT LawSetGet
