SPECIFICATION Spec
CONSTANTS
  Sym = {91, 93, 123, 125, 44, 58, 34, 49, 32, 97}
  MaxLen = 4
  Bug = "none"
INVARIANTS JsonAgree
CHECK_DEADLOCK FALSE
