SPECIFICATION RLSpec
CONSTANT Reasons <- AlgReasonsChecked
INVARIANT RLVerdict
CONSTRAINT RLConsumed
POSTCONDITION RLPost
CHECK_DEADLOCK FALSE
