SPECIFICATION Spec
CONSTANTS
  MaxLen = 5
  MaxLenCheap = 6
  KindLen = 4
  InitAll = FALSE
  BugNextArgNoSkip = FALSE
  BugUseFlagAll = FALSE
  BugOptionalOrigState = FALSE
  BugNames = "none"
  BugErrorState = "none"
  BugMissingIsOther = FALSE
  BugUsage = "none"
VIEW View
INVARIANTS TypeOK FamilyTerminates ConsumedExactlyOnce OptionValueNotPositional FlagNeverFails HelpLaw SuccessLeavesNothing ErrorKindLaw ErrorStateLaw UsageModelOK
CHECK_DEADLOCK FALSE
