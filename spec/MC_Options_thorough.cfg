SPECIFICATION Spec
CONSTANTS
  MaxLen = 5
  MaxLenCheap = 6
  InitAll = FALSE
  BugNextArgNoSkip = FALSE
  BugUseFlagAll = FALSE
  BugOptionalOrigState = FALSE
  BugNames = "none"
VIEW View
INVARIANTS TypeOK FamilyTerminates ConsumedExactlyOnce OptionValueNotPositional FlagNeverFails HelpLaw SuccessLeavesNothing
CHECK_DEADLOCK FALSE
