---------------------------- MODULE LogTrace ----------------------------
(* Judge of recorded executions of fcppt::log (property C19), harness/c19_log.cpp.

   (1) TSpec - sequential trace validation.  One TLC state per logged call.  Every event
       carries the call, its results (returned level / boolean, the text written to each of the
       six sinks) and the full projected state read back through the public API afterwards:
       context::get of every location of the universe and object::level of every object slot.
       The event is replayed through LogContext's operators (Eff); anything the specification
       cannot explain is recorded in `bad` with its reasons, and validation continues from the
       logged state.  Independently of the model's own state the property is evaluated
       literally on the read-back: every reported level must equal the level of the most
       recent logged set on a prefix of the location (root level if none) - reason
       "latest-prefix-wins".

   (2) CSpec - validation of concurrent histories.  The threaded driver logs, per call, a begin
       event and an end event ordered by a global atomic sequence number, and the state read
       back at quiescent points (all threads at a barrier).  TLC searches for a linearisation:
       between the logged events silent CLin(t) steps apply the pending call of thread t
       atomically to the abstract state.
         - locked operations (set, get, object creation): must take effect atomically at some
           point between their begin and end event; get must return the abstract value at that
           point; at every quiescent point the abstract state must equal the read-back.
         - lock-free reads (object::level / enabled): WEAK per-observation reading only - the
           value must be one the node can have held at some instant between begin and end: the
           abstract value at begin, or the old/new value of a set on a prefix of the node that
           is in flight at begin or begins before the read ends.  (The joint reading is false
           by design, see LogContextConc.tla, and is not demanded.)
       Node existence is unobservable (LogContext!TotalModelAgrees), so the search runs on the
       model in which every location of the universe exists from the start.
       Linearisation steps are only taken when the next logged event is the end of a call that
       has not been linearised yet (every linearisation can be normalised to that form).
       The trace is accepted iff some path consumes every line; otherwise the highest line
       reached is reported (register 1, POSTCONDITION). *)
EXTENDS LogContext, IOUtils

VARIABLES l,       \* next line to consume
          bad,     \* rejected events (sequential)
          univ,    \* the universe of locations read back (from the reset / cstart event)
          taint,   \* a rejection happened in this history: the literal LPW check is suspended
          pend,    \* [threads with a pending call -> [ev, lin, pre]]
          cand     \* [threads with a pending lock-free read -> admissible node levels]
tvars == <<st, sets, hist, l, bad, univ, taint, pend, cand>>

T == ndJsonDeserialize(IOEnv.TRACE)

UnivSet == {univ[i] : i \in 1..Len(univ)}
Proj(s) == [i \in 1..Len(univ) |-> GetOp(s.lvl, univ[i])]
ObjLv(s, n) == [o \in 1..n |-> IF o \in Bound(s) THEN s.lvl[s.obj[o].path] ELSE -1]
UnivIdx(p) == CHOOSE i \in 1..Len(univ) : univ[i] = p
(* the state in which every location exists and has the logged level *)
Resync(s, lv) == [s EXCEPT !.lvl = [p \in UnivSet |-> lv[UnivIdx(p)]]]

(* driver preconditions on top of the API's: everything stays inside the universe *)
TPre(s, ev) ==
  /\ ev.op \in {"set", "get", "create", "level", "enabled", "log", "logm", "acc"}
  /\ Pre(s, ev)
  /\ (ev.op \in {"set", "get"} => ev.loc \in UnivSet)
  /\ (ev.op = "create" => CreatePath(s, ev) \in UnivSet)

(* the text a call emitted, whichever of the six sinks received it (WHICH sink is not in the
   statement of C19: a right text on a wrong sink is the observation level-sink-routing) *)
AllOut(out) == out[1] \o out[2] \o out[3] \o out[4] \o out[5] \o out[6]

Reasons(s, ss, ev, e) ==
     (IF Proj(e.st) = ev.lv THEN {} ELSE {"levels"})
  \cup (IF ObjLv(e.st, Len(ev.ol)) = ev.ol THEN {} ELSE {"object-levels"})
  \cup (IF ev.ret = e.ret THEN {} ELSE {"returned-level"})
  \cup (IF ev.op = "enabled" /\ ev.rb # e.rb THEN {"enabled-decision"} ELSE {})
  \cup (IF (ev.out # NoOut) = (e.out # NoOut) THEN {} ELSE {"emitted-iff-enabled"})
  \cup (IF ev.out # NoOut /\ e.out # NoOut /\ AllOut(ev.out) # AllOut(e.out) THEN {"text"} ELSE {})
  \cup (IF taint \/ \A i \in 1..Len(univ) : ev.lv[i] = Latest(ss, s.root, univ[i])
        THEN {} ELSE {"latest-prefix-wins"})

(* SCOPE.  A reason is IN SCOPE (may become a rejected event / VIOLATION) only if the statement of
   property C19 covers it; everything else added in the extension round is OBSERVED ONLY: judged,
   counted, reported in the evidence (coverage.observations) and the notes, never a verdict.
   In scope, with the clause of the statement:
     levels, object-levels, returned-level, latest-prefix-wins
                          "the level reported for a location ... equal[s] the level of the most
                           recent set whose location is a prefix of it (the context's root level
                           if there is none)"
     enabled-decision     "and the enabled() decision of a log object equal ..."
     emitted-iff-enabled  "a message is emitted exactly when its level is at least that level"
     text                 "its text carries the location prefix and formatter chain in the
                           documented order"
     default-log          the same two clauses for a log object on a context built with
                          default_level_streams() (emission and text; WHICH standard stream
                          receives it is not in the statement: default-log-routing is observed only)
     not-linearizable / lock-free-read-inexplicable (CSpec), tsan (check)
                          "no data race and every observed level is one that some sequential
                           ordering of the calls would produce"
   Observed only (the statement does not mention them): level-sink-routing, macro-laziness,
   accessor-*, and every
   "rec" kind except the emission/text part of dlog. *)
OpObs(s, ev, e) ==
     (IF ev.out # e.out /\ AllOut(ev.out) = AllOut(e.out) THEN {"level-sink-routing"} ELSE {})
  \cup (IF ev.op = "logm" /\ ~MacroEvalsOK(e.rb, ev.ev) THEN {"macro-laziness"} ELSE {})
  \cup (IF ev.op = "acc" /\ ~(ev.hasf /\ ev.ft = ObjectFormatterText(s.obj[ev.o].fmt, s.obj[ev.o].path, ev.msg))
        THEN {"accessor-formatter"} ELSE {})
  \cup (IF ev.op = "acc" /\ ~ev.lss THEN {"accessor-level-streams"} ELSE {})
  \cup (IF ev.op = "acc" /\ ev.si # ev.l THEN {"accessor-level-sink"} ELSE {})

TInit ==
  /\ st = NewCtx(0, DefaultLf)
  /\ sets = <<>>
  /\ hist = <<>>
  /\ l = 1
  /\ bad = <<>>
  /\ univ = <<>>
  /\ taint = FALSE
  /\ pend = <<>>
  /\ cand = <<>>

TReset ==
  /\ T[l].e = "reset"
  /\ st' = NewCtx(T[l].root, T[l].lf)
  /\ sets' = <<>>
  /\ univ' = T[l].univ
  /\ taint' = FALSE
  /\ UNCHANGED bad

TOp ==
  /\ T[l].e = "op"
  /\ LET ev == T[l] IN
     IF ~TPre(st, ev)
     THEN /\ bad' = Append(bad, [l |-> l, op |-> ev.op, why |-> {"HARNESS-PRECONDITION"}, obs |-> {}])
          /\ UNCHANGED <<st, sets, taint>>
     ELSE LET e == Eff(st, ev)
              ss == IF ev.op = "set" THEN Append(sets, [loc |-> ev.loc, l |-> ev.l]) ELSE sets
              why == Reasons(st, ss, ev, e)
              obs == OpObs(st, ev, e)
          IN /\ bad' = IF why = {} /\ obs = {} THEN bad ELSE Append(bad, [l |-> l, op |-> ev.op, why |-> why, obs |-> obs])
             /\ sets' = ss
             /\ taint' = (taint \/ why # {})
             /\ st' = IF Proj(e.st) = ev.lv THEN e.st ELSE Resync(e.st, ev.lv)
  /\ UNCHANGED univ

(* independent call records ("e":"rec"): the rest of fcppt.log, judged against LogFormat.tla;
   RecReasons are OBSERVED ONLY (see SCOPE above) *)
FmtOf(g) ==
  CASE g.k = 0 -> FNone
    [] g.k = 1 -> FDefault(g.l)
    [] g.k = 2 -> FInserter(g.pre, g.suf)
    [] g.k = 3 -> (IF g.pre = <<>> THEN FNone ELSE FUser(g.pre))
    [] g.k = 4 -> FPrefix(g.pre)

LsSteps(steps) ==
  [i \in 1..Len(steps) |->
     IF steps[i].s = "log" THEN [s |-> "log", add |-> FmtOf(steps[i].add), msg |-> steps[i].msg] ELSE steps[i]]

RecReasons(ev) ==
  CASE ev.f \in {"to_string", "output"} ->
         (IF ev.s = LevelToString(ev.l) THEN {} ELSE {"level-name"})
    [] ev.f = "from_string" ->
         (IF ev.r = LevelFromString(ev.s) THEN {} ELSE {"level-from-name"})
    [] ev.f = "input" ->      \* enum/input.hpp: "In case this fails, the failbit of _stream is set."
         (LET L == LevelFromString(ev.s) IN
          IF L # NoLevel THEN (IF ev.ok /\ ev.r = L THEN {} ELSE {"level-input"})
          ELSE (IF ~ev.ok THEN {} ELSE {"level-input-failbit"}))
    [] ev.f = "default_stream" ->
         (IF ev.which = DefaultStream(ev.l) THEN {} ELSE {"default-stream"})
    [] ev.f = "dls" ->
         (IF ev.which = DefaultStream(ev.l) /\ ev.has /\ ev.text = Apply(FDefault(ev.l), ev.msg)
          THEN {} ELSE {"default-level-streams"})
    [] ev.f = "dlog" ->      \* only WHICH standard stream received the text (emission and text: RecWhy)
         (IF (ev.clog = <<>> \/ DefaultStream(ev.l) = 0) /\ (ev.cerr = <<>> \/ DefaultStream(ev.l) = 1)
          THEN {} ELSE {"default-log-routing"})
    [] ev.f = "chain" ->
         (LET ch == Chain(FALSE, FmtOf(ev.p), FmtOf(ev.c)) IN
          IF ev.has = (ch.k # 0) /\ (ev.has => ev.r = Apply(ch, ev.t)) THEN {} ELSE {"format-chain"})
    [] ev.f = "fmt" ->
         (IF ev.r = Apply(FmtOf(ev.g), ev.t) THEN {} ELSE {"format-function"})
    [] ev.f = "time_stamp" ->  \* "prints a time stamp in front": only the deterministic part is judged
         (IF IsSeqSuffix(ev.t, ev.r) /\ Len(ev.r) > Len(ev.t) THEN {} ELSE {"time-stamp"})
    [] ev.f = "params" ->
         (LET g == FmtOf(ev.g) IN
          IF ev.rname = ev.name /\ ev.has = (~ev.nofn /\ g.k # 0) /\ (ev.has => ev.r = Apply(g, ev.t))
          THEN {} ELSE {"parameters"})
    [] ev.f = "level_stream" ->
         (IF ev.res = LsRun(FALSE, FmtOf(ev.own), 1, LsSteps(ev.steps)) THEN {} ELSE {"level-stream-sink"})
    [] OTHER -> {"unknown-record"}

(* in scope: a message through a context with the default level streams is emitted exactly when
   enabled, and its text is location prefix + default level formatter *)
RecWhy(ev) ==
  IF ev.f = "dlog"
  THEN LET en == EnabledOp(ev.root, ev.l)
           exp == IF en THEN LogText(<<>>, <<ev.name>>, DefaultLf[1], ev.l, ev.msg) ELSE <<>>
       IN IF ev.clog \o ev.cerr = exp THEN {} ELSE {"default-log"}
  ELSE {}

TRec ==
  /\ T[l].e = "rec"
  /\ LET why == RecWhy(T[l])
         obs == RecReasons(T[l])
     IN bad' = IF why = {} /\ obs = {} THEN bad ELSE Append(bad, [l |-> l, op |-> T[l].f, why |-> why, obs |-> obs])
  /\ UNCHANGED <<st, sets, univ, taint>>

TNext ==
  /\ l <= Len(T)
  /\ l' = l + 1
  /\ (TReset \/ TOp \/ TRec)
  /\ UNCHANGED <<hist, pend, cand>>

TSpec == TInit /\ [][TNext]_tvars

Done == l = Len(T) + 1
Verdict == Done => PrintT("VERDICT " \o ToJson([n |-> Len(T), bad |-> bad]))
Consumed == TLCSet(1, l)
Post == IF TLCGet(1) = Len(T) + 1 THEN TRUE ELSE PrintT("STUCK " \o ToString(TLCGet(1)))

-----------------------------------------------------------------------------
(* concurrent histories *)
Pending == DOMAIN pend
Without(f, t) == [u \in DOMAIN f \ {t} |-> f[u]]
LockFree(ev) == ev.op \in {"level", "enabled"}

(* every level the node at path p may hold "now", given the calls in flight *)
Poss(p) ==
  {GetOp(st.lvl, p)}
  \cup {pend[u].ev.l : u \in {v \in Pending : pend[v].ev.op = "set" /\ ~pend[v].lin /\ IsPrefix(pend[v].ev.loc, p)}}
  \cup {GetOp(pend[u].pre, p) : u \in {v \in Pending : pend[v].ev.op = "set" /\ pend[v].lin /\ IsPrefix(pend[v].ev.loc, p)}}

CInit == TInit /\ TLCSet(1, 0)

CStart ==
  /\ T[l].e = "cstart"
  /\ Pending = {}
  /\ univ' = T[l].univ
  /\ st' = [lvl |-> [p \in {T[l].univ[i] : i \in 1..Len(T[l].univ)} |-> T[l].root],
            root |-> T[l].root, obj |-> <<>>, lf |-> DefaultLf]
  /\ l' = l + 1
  /\ UNCHANGED <<sets, hist, bad, taint, pend, cand>>

CQuiescent ==
  /\ T[l].e = "q"
  /\ Pending = {}
  /\ Proj(st) = T[l].lv
  /\ ObjLv(st, Len(T[l].ol)) = T[l].ol
  /\ l' = l + 1
  /\ UNCHANGED <<st, sets, hist, bad, univ, taint, pend, cand>>

CBegin ==
  /\ T[l].e = "b"
  /\ LET ev == T[l]
         t == ev.t
     IN /\ t \notin Pending
        /\ TPre(st, ev)
        /\ IF LockFree(ev)
           THEN /\ pend' = pend @@ (t :> [ev |-> ev, lin |-> TRUE, pre |-> <<>>])
                /\ cand' = cand @@ (t :> Poss(st.obj[ev.o].path))
           ELSE /\ pend' = pend @@ (t :> [ev |-> ev, lin |-> FALSE, pre |-> <<>>])
                /\ cand' = [u \in DOMAIN cand |->
                              IF ev.op = "set" /\ IsPrefix(ev.loc, st.obj[pend[u].ev.o].path)
                              THEN cand[u] \cup {ev.l} ELSE cand[u]]
  /\ l' = l + 1
  /\ UNCHANGED <<st, sets, hist, bad, univ, taint>>

(* silent: the pending locked call of thread u takes effect atomically now *)
CLin(u) ==
  /\ T[l].e = "e"
  /\ T[l].t \in Pending /\ ~pend[T[l].t].lin
  /\ u \in Pending /\ ~pend[u].lin
  /\ LET ev == pend[u].ev
         e == Eff(st, ev)
     IN /\ (ev.op = "get" => e.ret = ev.r)
        /\ st' = e.st
        /\ pend' = [pend EXCEPT ![u] = [ev |-> ev, lin |-> TRUE, pre |-> IF ev.op = "set" THEN st.lvl ELSE <<>>]]
  /\ UNCHANGED <<sets, hist, l, bad, univ, taint, cand>>

CEnd ==
  /\ T[l].e = "e"
  /\ LET t == T[l].t IN
     /\ t \in Pending /\ pend[t].lin
     /\ LET ev == pend[t].ev IN
        /\ (ev.op = "level" => ev.r \in cand[t])
        /\ (ev.op = "enabled" => \E v \in cand[t] : EnabledOp(v, ev.l) = ev.rb)
     /\ pend' = Without(pend, t)
     /\ cand' = IF t \in DOMAIN cand THEN Without(cand, t) ELSE cand
  /\ l' = l + 1
  /\ UNCHANGED <<st, sets, hist, bad, univ, taint>>

CNext ==
  /\ l <= Len(T)
  /\ (CStart \/ CQuiescent \/ CBegin \/ CEnd \/ \E u \in Pending : CLin(u))

CSpec == CInit /\ [][CNext]_tvars

CConsumed == TLCSet(1, IF l > TLCGet(1) THEN l ELSE TLCGet(1))
CVerdict == Done => PrintT("VERDICT " \o ToJson([n |-> Len(T), bad |-> <<>>]))
=============================================================================
