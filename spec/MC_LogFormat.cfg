SPECIFICATION LawSpec
CONSTANTS
  ChainSwapBug = FALSE
  SinkIgnoredBug = FALSE
  MaxSteps = 0
INVARIANTS RoundTrip NamesDistinct FromStringSound DefaultStreamLaw ChainUnit ChainAssoc ChainOrder LogTextIsChain MacroLaw
CHECK_DEADLOCK FALSE
