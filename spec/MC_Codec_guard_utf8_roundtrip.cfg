SPECIFICATION Spec
CONSTANTS
  Mode = "utf8"
  Step = 17
  DecRange = 70000
  U8 <- Utf8Bug
  WR <- Write
  TD <- ToDec
  NT <- NumText
  NTL <- NumTextLoc
  CV <- Convert
  RV <- ReadVec
INVARIANTS LawUtf8RoundTrip
CHECK_DEADLOCK FALSE
