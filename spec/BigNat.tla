------------------------------- MODULE BigNat -------------------------------
(* Natural numbers and integers beyond TLC's 32-bit integers, as the harnesses
   log them: a natural is the sequence of its base-2^15 limbs, least significant
   first, without a most-significant zero limb (zero is << >>); an integer is a
   record [s |-> -1 | 0 | 1, m |-> natural] with s = 0 iff m = << >>.
   Base is a definition so that the law check (MC_BigNat.cfg) can run with a
   tiny base, which makes every carry/borrow path reachable with small numbers
   that TLC can compare against its own arithmetic.                            *)
EXTENDS Integers, Sequences, TLC

LimbBits == 15                      \* a model may override this (cfg: LimbBits <- 2)
LimbPow == <<1, 2, 4, 8, 16, 32, 64, 128, 256, 512, 1024, 2048, 4096, 8192, 16384, 32768>>
Base == LimbPow[LimbBits + 1]

IsNat(a) == /\ \A i \in 1..Len(a) : a[i] \in 0..(Base - 1)
            /\ (Len(a) > 0 => a[Len(a)] # 0)
IsZ(z) == /\ z.s \in {-1, 0, 1} /\ IsNat(z.m) /\ ((z.s = 0) = (z.m = <<>>))

RECURSIVE Norm(_)
Norm(a) == IF a = <<>> THEN a
           ELSE IF a[Len(a)] = 0 THEN Norm(SubSeq(a, 1, Len(a) - 1)) ELSE a

RECURSIVE NOfInt(_)
NOfInt(n) == IF n = 0 THEN <<>> ELSE <<n % Base>> \o NOfInt(n \div Base)
RECURSIVE IntOfN(_)      \* only for values that fit
IntOfN(a) == IF a = <<>> THEN 0 ELSE a[1] + Base * IntOfN(Tail(a))

(* comparison: -1, 0, 1 *)
RECURSIVE CmpFrom(_, _, _)
CmpFrom(a, b, i) ==      \* same length, compare limbs i, i-1, ..., 1
  IF i = 0 THEN 0
  ELSE IF a[i] < b[i] THEN -1 ELSE IF a[i] > b[i] THEN 1 ELSE CmpFrom(a, b, i - 1)
CmpN(a, b) == IF Len(a) < Len(b) THEN -1 ELSE IF Len(a) > Len(b) THEN 1 ELSE CmpFrom(a, b, Len(a))
LeN(a, b) == CmpN(a, b) <= 0
LtN(a, b) == CmpN(a, b) < 0

Limb(a, i) == IF i <= Len(a) THEN a[i] ELSE 0

RECURSIVE AddFrom(_, _, _, _)
AddFrom(a, b, i, carry) ==
  IF i > Len(a) /\ i > Len(b) THEN (IF carry = 0 THEN <<>> ELSE <<carry>>)
  ELSE LET s == Limb(a, i) + Limb(b, i) + carry IN <<s % Base>> \o AddFrom(a, b, i + 1, s \div Base)
AddN(a, b) == AddFrom(a, b, 1, 0)

RECURSIVE SubFrom(_, _, _, _)
SubFrom(a, b, i, borrow) ==    \* requires a >= b
  IF i > Len(a) THEN <<>>
  ELSE LET d == a[i] - Limb(b, i) - borrow IN
       IF d < 0 THEN <<d + Base>> \o SubFrom(a, b, i + 1, 1) ELSE <<d>> \o SubFrom(a, b, i + 1, 0)
SubN(a, b) == Norm(SubFrom(a, b, 1, 0))

RECURSIVE MulSmallFrom(_, _, _, _)
MulSmallFrom(a, d, i, carry) ==
  IF i > Len(a) THEN (IF carry = 0 THEN <<>> ELSE <<carry>>)
  ELSE LET p == a[i] * d + carry IN <<p % Base>> \o MulSmallFrom(a, d, i + 1, p \div Base)
MulSmallN(a, d) == IF d = 0 THEN <<>> ELSE MulSmallFrom(a, d, 1, 0)

ShiftLimbs(a, k) == IF a = <<>> THEN a ELSE [i \in 1..k |-> 0] \o a
RECURSIVE MulFrom(_, _, _)
MulFrom(a, b, i) == IF i > Len(b) THEN <<>>
                    ELSE AddN(ShiftLimbs(MulSmallN(a, b[i]), i - 1), MulFrom(a, b, i + 1))
MulN(a, b) == MulFrom(a, b, 1)

(* quotient and remainder by doubling (b # 0): depth = number of bits of a/b *)
RECURSIVE DivModN(_, _)
DivModN(a, b) ==
  IF LtN(a, b) THEN [q |-> <<>>, r |-> a]
  ELSE LET h == DivModN(a, AddN(b, b))
           q2 == AddN(h.q, h.q)
       IN IF LeN(b, h.r) THEN [q |-> AddN(q2, <<1>>), r |-> SubN(h.r, b)]
                         ELSE [q |-> q2, r |-> h.r]

(* 2^k as naturals, k = 0..64: a single bit in limb k \div LimbBits (no RECURSIVE operator, so
   that TLC pre-computes the table; checked against doubling in IntMathWideLaws.PowLaws) *)
Pow2N == [k \in 0..64 |-> [i \in 1..((k \div LimbBits) + 1) |->
                            IF i = (k \div LimbBits) + 1 THEN LimbPow[(k % LimbBits) + 1] ELSE 0]] @@ <<>>

(* (a & b) /= 0 : some bit set in both.  Limbs are below 2^15. *)
RECURSIVE LimbAndNZ(_, _)
LimbAndNZ(x, y) == IF x = 0 \/ y = 0 THEN FALSE
                   ELSE (x % 2 = 1 /\ y % 2 = 1) \/ LimbAndNZ(x \div 2, y \div 2)
AndNonZeroN(a, b) == \E i \in 1..Len(a) : i <= Len(b) /\ LimbAndNZ(a[i], b[i])

\* ---------------------------------------------------------------- integers
ZOfN(a) == [s |-> IF a = <<>> THEN 0 ELSE 1, m |-> a]
ZOfInt(n) == [s |-> IF n = 0 THEN 0 ELSE IF n < 0 THEN -1 ELSE 1, m |-> NOfInt(IF n < 0 THEN -n ELSE n)]
IntOfZ(z) == z.s * IntOfN(z.m)
Zero == [s |-> 0, m |-> <<>>]
NegZ(z) == [s |-> -z.s, m |-> z.m]
AbsZ(z) == [s |-> IF z.s = 0 THEN 0 ELSE 1, m |-> z.m]
CmpZ(x, y) ==
  IF x.s # y.s THEN (IF x.s < y.s THEN -1 ELSE 1)
  ELSE IF x.s = 0 THEN 0
  ELSE IF x.s = 1 THEN CmpN(x.m, y.m) ELSE CmpN(y.m, x.m)
LeZ(x, y) == CmpZ(x, y) <= 0
LtZ(x, y) == CmpZ(x, y) < 0
AddZ(x, y) ==
  IF x.s = 0 THEN y ELSE IF y.s = 0 THEN x
  ELSE IF x.s = y.s THEN [s |-> x.s, m |-> AddN(x.m, y.m)]
  ELSE LET c == CmpN(x.m, y.m) IN
       IF c = 0 THEN Zero
       ELSE IF c > 0 THEN [s |-> x.s, m |-> SubN(x.m, y.m)]
       ELSE [s |-> y.s, m |-> SubN(y.m, x.m)]
SubZ(x, y) == AddZ(x, NegZ(y))
MulZ(x, y) == IF x.s = 0 \/ y.s = 0 THEN Zero ELSE [s |-> x.s * y.s, m |-> MulN(x.m, y.m)]
One == [s |-> 1, m |-> <<1>>]
=============================================================================
