SPECIFICATION TSpec
CONSTANTS
  Names <- NamesABC
  MaxDepth = 3
  SetLevels = {0}
  RootLevels = {0}
  Objs = {1}
  MaxSets = 0
  MaxOps = 0
  GenObservers = FALSE
  SetNodeOnlyBug = FALSE
  InheritRootBug = FALSE
INVARIANT Verdict
CONSTRAINT Consumed
POSTCONDITION Post
CHECK_DEADLOCK FALSE
