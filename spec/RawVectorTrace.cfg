SPECIFICATION TSpec
CONSTANTS
  NV = 3
  NB = 2
  Val = {0}
  MaxLen = 0
  MaxW = 0
INVARIANT Verdict
CONSTRAINT Consumed
POSTCONDITION Post
CHECK_DEADLOCK FALSE
