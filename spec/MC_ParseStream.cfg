SPECIFICATION ASpec
CONSTANTS
  Sym = {97, 10, 32, 9}
  MaxLen = 4
  MaxOps = 99
VIEW AView
INVARIANTS ATypeOK PosLaws ModelExplained SavedValid
CHECK_DEADLOCK FALSE
