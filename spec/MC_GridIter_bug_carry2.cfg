SPECIFICATION Spec
CONSTANTS
  N = 2
  MaxC = 5
  CarryBug = 2
  EndBug = FALSE
  SizeBug = FALSE
VIEW View
INVARIANTS Prefix
