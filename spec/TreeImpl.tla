--------------------------- MODULE TreeImpl ---------------------------
(* Pointer-level model of fcppt::container::tree::object<T>, transcribed from
   libs/core/include/fcppt/container/tree/object_impl.hpp operation by operation.

   What the C++ object stores: value_, the non-owning back link parent_, and
   children_ (a std::list of objects: the address of a child is stable while it
   stays in a list, and a list move/swap transfers the elements without moving
   them).  Here: a heap of node records [v, par, kids, live]; an id is an address;
   ids are never reused, a destroyed node keeps its record with live = FALSE so
   that a stale pointer to it is recognisable (NoDangling).  `roots` maps a slot
   to the id of the object the slot holds (0 = empty slot).

   Every constructor call of the code is a node allocation here: the move
   constructor allocates a new node, steals the child list (move_children:
   move_clear + re-parenting loop) and leaves parent_ null; the copy constructor
   allocates recursively (copy_children: list copy + re-parenting loop);
   children_.insert(it, std::move(tree)) move-constructs the list element.

   The model runs in lock-step with the abstract specification Tree (variable
   st): TLC checks ParentConsistent, RootsHaveNoParent, NoDangling, NoLeak, the
   refinement Abs(heap, roots) = st and the agreement of the returned values in
   every reachable state.

   Constants that re-introduce a defect (vacuity guards - TLC must find the
   counterexample when one of them is TRUE):
     SwapBug, CopyAssignBug, MoveAssignBug   the code as it is in the unrepaired
                        tree: swap exchanges parent_ and does not re-parent the
                        exchanged children; operator=(const&) sets parent_ = nullptr;
                        operator=(&&) swaps parent_   (fixes/C09_*.diff repairs them;
                        FALSE = the repaired code)
     InsertNoParentBug  insert() does not set parent_ of the new child
     CopyNoReparentBug  copy_children() without the re-parenting loop
     EraseKeepsBug      release() forgets children_.erase(it)
     PushFrontRetBug    push_front() returns children_.back()
     MoveAssignInPlaceBug  operator=(&&) written as  children_ = std::move(other.children_)
                        plus a re-parenting loop: the list assignment destroys the old
                        children first - and with them a source that is a descendant of the
                        destination, together with the children that were to be adopted
     LeakTempBug        the temporary object(value) of insert(it, T) is never destroyed (guard
                        of the model-sanity invariant NoLeak)
     LogDupBug          find_or_create_child never finds the existing child (always push_back)
     LogSetShallowBug   context::set updates the node only, not the locations below it
   BadIInit (cfg INIT override) starts from an ill-typed state: guard of ITypeOK / TypeOK.
   ReleaseNoClear = TRUE drops `ret.parent_ = nullptr` from release()/pop_*():
   TLC finds NO violation - the statement is redundant because the move
   constructor already leaves parent_ null (an equivalent mutant, see notes). *)
EXTENDS Tree

CONSTANTS SwapBug, CopyAssignBug, MoveAssignBug, InsertNoParentBug, CopyNoReparentBug,
          EraseKeepsBug, PushFrontRetBug, ReleaseNoClear, MoveAssignInPlaceBug, LeakTempBug,
          LogDupBug, LogSetShallowBug

VARIABLES heap,    \* sequence of [v, par, kids, live]; index = address
          roots,   \* [1..NS -> id or 0]
          retok    \* the values returned by the last operation agreed with the abstract contract
ivars == <<st, hist, heap, roots, retok>>

-----------------------------------------------------------------------------
Fresh(x) == [v |-> x, par |-> 0, kids |-> <<>>, live |-> TRUE]

(* object(T const &) / object(T &&) *)
NewNode(h, x) == [h |-> Append(h, Fresh(x)), id |-> Len(h) + 1]

(* for (auto &child : list) child.parent_ = p; *)
SetPar(h, ids, p) ==
  [i \in 1..Len(h) |-> IF \E j \in 1..Len(ids) : ids[j] = i THEN [h[i] EXCEPT !.par = p] ELSE h[i]]

(* object(object &&other): value_(move(other.value_)), parent_{nullptr},
   children_(move_children(move(other.children_))) *)
MoveCtor(h, src) ==
  LET n == Len(h) + 1
      ks == h[src].kids
      h1 == Append([h EXCEPT ![src].kids = <<>>], [Fresh(h[src].v) EXCEPT !.kids = ks])
  IN [h |-> SetPar(h1, ks, n), id |-> n]

(* object(object const &other): value_(other.value()), parent_{nullptr},
   children_(copy_children(other.children_));  copy_children copy-constructs the list
   (recursively) and then sets parent_ of the direct children *)
RECURSIVE CopyCtor(_, _)
RECURSIVE CopyList(_, _, _)
CopyCtor(h, src) ==
  LET n == Len(h) + 1
      r == CopyList(Append(h, Fresh(h[src].v)), h[src].kids, <<>>)
      h2 == [r.h EXCEPT ![n].kids = r.ids]
  IN [h |-> IF CopyNoReparentBug THEN h2 ELSE SetPar(h2, r.ids, n), id |-> n]
CopyList(h, ks, acc) ==
  IF ks = <<>> THEN [h |-> h, ids |-> acc]
  ELSE LET c == CopyCtor(h, Head(ks)) IN CopyList(c.h, Tail(ks), Append(acc, c.id))

(* ~object(): the node and, through children_, its whole sub-tree *)
RECURSIVE Kill(_, _)
RECURSIVE KillList(_, _)
Kill(h, n) == KillList([h EXCEPT ![n].live = FALSE], h[n].kids)
KillList(h, ks) == IF ks = <<>> THEN h ELSE KillList(Kill(h, Head(ks)), Tail(ks))

(* insert(it, object &&tree): children_.insert(it, std::move(tree))->parent_ = this; *)
InsertMove(h, this, pos, src) ==
  LET m == MoveCtor(h, src)
      h1 == [m.h EXCEPT ![this].kids = InsertAt(@, pos, <<m.id>>)]
  IN [h |-> IF InsertNoParentBug THEN h1 ELSE [h1 EXCEPT ![m.id].par = this], id |-> m.id]

(* insert(it, T): this->insert(it, object(value)) - a temporary that dies afterwards *)
InsertValue(h, this, pos, x) ==
  LET t == NewNode(h, x)
      r == InsertMove(t.h, this, pos, t.id)
  IN [h |-> IF LeakTempBug THEN r.h ELSE Kill(r.h, t.id), id |-> r.id]

(* release(it): object ret(std::move(child)); children_.erase(it); ret.parent_ = nullptr; return ret;
   pop_back()/pop_front(): the same through container::pop_back / pop_front and optional::map *)
ReleaseChild(h, this, pos) ==
  LET c == h[this].kids[pos + 1]
      m == MoveCtor(h, c)
      h1 == IF EraseKeepsBug THEN m.h
            ELSE [Kill(m.h, c) EXCEPT ![this].kids = RemoveRange(@, pos, pos + 1)]
  IN [h |-> IF ReleaseNoClear THEN h1 ELSE [h1 EXCEPT ![m.id].par = 0], id |-> m.id]

(* erase(first, last) / clear() *)
EraseKids(h, this, a, b) ==
  [KillList(h, SubSeq(h[this].kids, a + 1, b)) EXCEPT ![this].kids = RemoveRange(@, a, b)]

(* swap(other) *)
SwapNodes(h, a, b) ==
  LET h1 == [h EXCEPT ![a].v = h[b].v, ![b].v = h[a].v, ![a].kids = h[b].kids, ![b].kids = h[a].kids]
  IN IF SwapBug
     THEN \* swap(value_), std::swap(parent_, other.parent_), children_.swap(other.children_)
          [h1 EXCEPT ![a].par = h[b].par, ![b].par = h[a].par]
     ELSE \* repaired: parent_ untouched, both child lists re-parented
          SetPar(SetPar(h1, h[b].kids, a), h[a].kids, b)

(* operator=(object const &other): value_ = other.value_; [parent_ = nullptr;]
   children_ = copy_children(other.children_)  (the old children die in the list assignment) *)
CopyAssign(h, this, other) ==
  LET r == CopyList(h, h[other].kids, <<>>)
      h1 == IF CopyNoReparentBug THEN r.h ELSE SetPar(r.h, r.ids, this)
      h2 == KillList(h1, h[this].kids)
      h3 == [h2 EXCEPT ![this].v = h[other].v, ![this].kids = r.ids]
  IN IF CopyAssignBug THEN [h3 EXCEPT ![this].par = 0] ELSE h3

(* operator=(object &&other): value_ = move(other.value_);
   children_ = move_children(move(other.children_)); [std::swap(parent_, other.parent_);] *)
MoveAssign(h, this, other) ==
  LET ks == h[other].kids
      \* move_children: the source's list is moved out (move_clear) and re-parented BEFORE the
      \* destination's old children - possibly owning the source - are destroyed
      h1 == IF MoveAssignInPlaceBug THEN h ELSE SetPar([h EXCEPT ![other].kids = <<>>], ks, this)
      h2 == IF MoveAssignInPlaceBug
            THEN SetPar([KillList(h1, h[this].kids) EXCEPT ![other].kids = <<>>], ks, this)
            ELSE KillList(h1, h[this].kids)
      h3 == [h2 EXCEPT ![this].v = h[other].v, ![this].kids = ks]
  IN IF MoveAssignBug THEN [h3 EXCEPT ![this].par = h[other].par, ![other].par = h[this].par] ELSE h3

(* sort(): children_.sort(...) relinks the elements, addresses are stable *)
SortKids(h, this, desc) ==
  LET recs == [i \in 1..Len(h[this].kids) |-> [v |-> h[h[this].kids[i]].v, id |-> h[this].kids[i]]]
      srt == StableSort(recs, desc)
  IN [h EXCEPT ![this].kids = [i \in 1..Len(srt) |-> srt[i].id]]

(* the log context: find_location_impl folds find_or_create_child along the location;
   find_or_create_child = find_child (first child with the name) or push_back(node{name, level()}) *)
RECURSIVE ILogFind(_, _, _)
ILogFind(h, n, names) ==
  IF names = <<>> THEN [h |-> h, id |-> n]
  ELSE LET S == {i \in 1..Len(h[n].kids) : LogName(h[h[n].kids[i]].v) = Head(names)}
       IN IF S # {} /\ ~LogDupBug
          THEN ILogFind(h, h[n].kids[CHOOSE i \in S : \A j \in S : i <= j], Tail(names))
          ELSE LET r == InsertValue(h, n, Len(h[n].kids), LogLabel(Head(names), LogLevel(h[n].v)))
               IN ILogFind(r.h, r.id, Tail(names))

-----------------------------------------------------------------------------
(* reading the structure through the child lists *)
RECURSIVE Walk(_, _, _)
Walk(h, n, p) == IF p = <<>> THEN n ELSE Walk(h, h[n].kids[Head(p) + 1], Tail(p))
IdAt(h, rt, s, p) == Walk(h, rt[s], p)

RECURSIVE AbsTree(_, _)
AbsTree(h, n) == [v |-> h[n].v, k |-> [i \in 1..Len(h[n].kids) |-> AbsTree(h, h[n].kids[i])]]
Abs(h, rt) == [s \in 1..NS |-> IF rt[s] = 0 THEN Dead ELSE Live(AbsTree(h, rt[s]))]

RECURSIVE DfsIds(_, _)
RECURSIVE DfsIdsSeq(_, _)
DfsIds(h, n) == <<n>> \o DfsIdsSeq(h, h[n].kids)
DfsIdsSeq(h, ks) == IF ks = <<>> THEN <<>> ELSE DfsIds(h, Head(ks)) \o DfsIdsSeq(h, Tail(ks))

(* a slot object that receives a returned temporary: slots[d].emplace(std::move(tmp)) *)
IntoSlot(h, rt, d, tmp) ==
  IF d = 0 THEN [h |-> Kill(h, tmp), rt |-> rt]
  ELSE LET m == MoveCtor(h, tmp) IN [h |-> Kill(m.h, tmp), rt |-> [rt EXCEPT ![d] = m.id]]

(* one implementation step for operation a *)
ImplEff(h, rt, a) ==
  LET na == IdAt(h, rt, a.as, a.ap)
      nb == IdAt(h, rt, a.bs, a.bp)
      R(h2, rt2, ret, some, rb) == [h |-> h2, rt |-> rt2, ret |-> ret, some |-> some, rb |-> rb]
      S(h2) == R(h2, rt, 0, FALSE, FALSE)
      nk == Len(h[na].kids)
  IN CASE a.op = "ctor" -> LET n == NewNode(h, a.x) IN R(n.h, [rt EXCEPT ![a.d] = n.id], 0, FALSE, FALSE)
       [] a.op = "ctor_list" ->
            \* child_list l; l.push_back(std::move(slot object)); slot.reset(); ...; object(x, std::move(l))
            LET Mv[j \in 0..Len(a.ss)] ==
                  IF j = 0 THEN [h |-> h, ids |-> <<>>]
                  ELSE LET m == MoveCtor(Mv[j - 1].h, rt[a.ss[j]])
                       IN [h |-> Kill(m.h, rt[a.ss[j]]), ids |-> Append(Mv[j - 1].ids, m.id)]
                r == Mv[Len(a.ss)]
                n == NewNode(r.h, a.x)
                h2 == SetPar([n.h EXCEPT ![n.id].kids = r.ids], r.ids, n.id)
            IN R(h2, [s \in 1..NS |-> IF s = a.d THEN n.id
                                      ELSE IF \E j \in 1..Len(a.ss) : a.ss[j] = s THEN 0 ELSE rt[s]],
                 0, FALSE, FALSE)
       [] a.op = "copy_ctor" -> LET c == CopyCtor(h, na) IN R(c.h, [rt EXCEPT ![a.d] = c.id], 0, FALSE, FALSE)
       [] a.op = "move_ctor" -> LET m == MoveCtor(h, na) IN R(m.h, [rt EXCEPT ![a.d] = m.id], 0, FALSE, FALSE)
       [] a.op = "destroy" -> R(Kill(h, na), [rt EXCEPT ![a.as] = 0], 0, FALSE, FALSE)
       [] a.op = "push_back" -> LET r == InsertValue(h, na, nk, a.x) IN R(r.h, rt, r.h[na].kids[nk + 1], FALSE, FALSE)
       [] a.op = "push_front" ->
            LET r == InsertValue(h, na, 0, a.x)
            IN R(r.h, rt, IF PushFrontRetBug THEN r.h[na].kids[nk + 1] ELSE r.h[na].kids[1], FALSE, FALSE)
       [] a.op = "push_back_tree" -> LET r == InsertMove(h, na, nk, nb) IN R(r.h, rt, r.h[na].kids[nk + 1], FALSE, FALSE)
       [] a.op = "push_front_tree" -> LET r == InsertMove(h, na, 0, nb) IN R(r.h, rt, r.h[na].kids[1], FALSE, FALSE)
       [] a.op = "insert" -> S(InsertValue(h, na, a.pos, a.x).h)
       [] a.op = "insert_tree" -> S(InsertMove(h, na, a.pos, nb).h)
       [] a.op \in {"pop_back", "pop_front"} ->
            IF nk = 0 THEN S(h)
            ELSE LET r == ReleaseChild(h, na, IF a.op = "pop_back" THEN nk - 1 ELSE 0)
                     q == IntoSlot(r.h, rt, a.d, r.id)
                 IN R(q.h, q.rt, 0, TRUE, FALSE)
       [] a.op = "release" ->
            LET r == ReleaseChild(h, na, a.pos)
                q == IntoSlot(r.h, rt, a.d, r.id)
            IN R(q.h, q.rt, 0, FALSE, FALSE)
       [] a.op = "erase" -> S(EraseKids(h, na, a.pos, a.pos + 1))
       [] a.op = "erase_range" -> S(EraseKids(h, na, a.pos, a.pos2))
       [] a.op = "clear" -> S(EraseKids(h, na, 0, nk))
       [] a.op = "sort" -> S(SortKids(h, na, a.x = 1))
       [] a.op \in {"swap", "swap_free"} -> S(SwapNodes(h, na, nb))
       [] a.op = "copy_assign" -> S(CopyAssign(h, na, nb))
       [] a.op = "move_assign" -> S(MoveAssign(h, na, nb))
       [] a.op = "set_value" -> S([h EXCEPT ![na].v = a.x])
       [] a.op = "eq" -> R(h, rt, 0, FALSE, Equal(AbsTree(h, na), AbsTree(h, nb)))
       [] a.op = "ne" -> R(h, rt, 0, FALSE, ~Equal(AbsTree(h, na), AbsTree(h, nb)))
       [] a.op = "log_ctor" -> LET n == NewNode(h, LogLabel(0, a.x)) IN R(n.h, [rt EXCEPT ![a.d] = n.id], 0, FALSE, FALSE)
       [] a.op = "log_create" -> LET r == ILogFind(h, na, a.ss) IN R(r.h, rt, r.id, FALSE, FALSE)
       [] a.op = "log_set" ->
            \* for (node : make_pre_order(find_location_impl(location))) node.value().level(level)
            LET r == ILogFind(h, na, a.ss)
                ids == IF LogSetShallowBug THEN <<r.id>> ELSE DfsIds(r.h, r.id)
            IN S([i \in 1..Len(r.h) |->
                    IF \E j \in 1..Len(ids) : ids[j] = i
                    THEN [r.h[i] EXCEPT !.v = LogLabel(LogName(@), a.x)] ELSE r.h[i]])

-----------------------------------------------------------------------------
IInit ==
  /\ Init
  /\ heap = <<>>
  /\ roots = [s \in 1..NS |-> 0]
  /\ retok = TRUE

IStep(a) ==
  /\ Pre(st, a)
  /\ LET ie == ImplEff(heap, roots, a)
         ae == Eff(st, a)
     IN /\ heap' = ie.h
        /\ roots' = ie.rt
        /\ st' = ae.f
        /\ hist' = Append(hist, a)
        /\ retok' = /\ ae.some = ie.some
                    /\ ae.rb = ie.rb
                    /\ IF ae.ret = NoRet THEN ie.ret = 0
                       ELSE /\ ie.rt[ae.ret.s] # 0
                            /\ ie.ret = IdAt(ie.h, ie.rt, ae.ret.s, ae.ret.p)

INext == \E a \in OpsOf(st) : IStep(a)

ISpec == IInit /\ [][INext]_ivars

(* ---- canonical rendering of the pointer structure (what the harness dumps) ---- *)
Reach == UNION {Range(DfsIds(heap, roots[s])) : s \in {s \in 1..NS : roots[s] # 0}}

(* reference of an address: slot * 1000 + DFS index; -1 null; -2 not a live reachable node *)
RefOf(x) ==
  IF x = 0 THEN -1
  ELSE LET hits == {w \in (1..NS) \X (1..Len(heap)) :
                      roots[w[1]] # 0 /\ w[2] <= Len(DfsIds(heap, roots[w[1]]))
                      /\ DfsIds(heap, roots[w[1]])[w[2]] = x /\ heap[x].live}
       IN IF hits = {} THEN -2 ELSE LET w == CHOOSE w \in hits : TRUE IN w[1] * 1000 + (w[2] - 1)

DumpSlot(s) ==
  IF roots[s] = 0 THEN <<>>
  ELSE LET ids == DfsIds(heap, roots[s])
       IN [i \in 1..Len(ids) |-> <<heap[ids[i]].v, Len(heap[ids[i]].kids), RefOf(heap[ids[i]].par), heap[ids[i]].live>>]

(* two states with the same abstract forest and the same rendering have the same future:
   addresses themselves are never observable and never reused *)
IView == <<st, [s \in 1..NS |-> DumpSlot(s)], retok>>

(* ---- what TLC checks ---- *)
(* every child's parent() refers to the node that lists it as a child *)
ParentConsistent ==
  \A n \in Reach : \A j \in 1..Len(heap[n].kids) : heap[heap[n].kids[j]].par = n
(* a root (an object held by a slot) has no parent *)
RootsHaveNoParent == \A s \in 1..NS : roots[s] # 0 => heap[roots[s]].par = 0
(* no link refers to a destroyed node *)
NoDangling ==
  \A n \in Reach :
    /\ heap[n].live
    /\ heap[n].par # 0 => heap[heap[n].par].live
(* no node is lost: everything alive is reachable from a slot *)
NoLeak == {i \in 1..Len(heap) : heap[i].live} = Reach
(* the child lists, read as a value, are the abstract forest *)
Refines == Abs(heap, roots) = st
ReturnsAgree == retok
ITypeOK ==
  /\ \A i \in 1..Len(heap) : heap[i].par \in 0..Len(heap) /\ \A j \in 1..Len(heap[i].kids) : heap[i].kids[j] \in 1..Len(heap)
  /\ \A s \in 1..NS : roots[s] \in 0..Len(heap)

(* ill-typed initial states: vacuity guards of ITypeOK and TypeOK (MC_TreeImpl_badinit*.cfg) *)
BadIInit ==
  /\ st = EmptyForest /\ hist = <<>> /\ retok = TRUE /\ roots = [s \in 1..NS |-> 0]
  /\ heap = <<[v |-> 0, par |-> 7, kids |-> <<>>, live |-> FALSE]>>
BadTInit ==
  /\ st = [s \in 1..NS |-> IF s = 1 THEN Live(Leaf(CHOOSE x \in 0..100 : x \notin Val)) ELSE Dead]
  /\ hist = <<>> /\ heap = <<>> /\ retok = TRUE /\ roots = [s \in 1..NS |-> 0]

(* the log sub-model in lock-step (MC_TreeImpl_log.cfg) *)
LogIInit == IInit
LogINext == \E a \in LogOpsOf(st) : IStep(a)
LogNamesUniqueI ==
  \A n \in Reach : \A i \in 1..Len(heap[n].kids) : \A j \in 1..Len(heap[n].kids) :
    i # j => LogName(heap[heap[n].kids[i]].v) # LogName(heap[heap[n].kids[j]].v)

EmitIScripts == PrintT("SCRIPT " \o ToJson(hist))
=============================================================================
