SPECIFICATION SpecSeq
CONSTANTS
  MaxLen = 4
  SetMax = 3
  Equal <- EqualCommonPrefix
INVARIANT ExtensionSeqLaws
