------------------------------- MODULE LinAlg -------------------------------
(* C14 - reference linear algebra over the integers (DESIGN.md 3.14).

   A vector (or dim) of dimension N is a function 1..N -> Int, a matrix with R rows and C
   columns is a function 1..R -> (1..C -> Int) (a sequence of rows).  Everything is the
   text-book definition; TLC evaluates it both to check the ring/module laws on small
   matrices (MC_LinAlg) and to judge recorded calls of the real fcppt code (LinAlgJudge). *)
EXTENDS Integers, Sequences, FiniteSets

(* sum of f(1) + ... + f(n) *)
Sum(f(_), n) == LET S[k \in 0..n] == IF k = 0 THEN 0 ELSE S[k - 1] + f(k) IN S[n]
Prod(f(_), n) == LET S[k \in 0..n] == IF k = 0 THEN 1 ELSE S[k - 1] * f(k) IN S[n]
Pow2(n) == Prod(LAMBDA k : 2, n)
Sign(k) == IF k % 2 = 0 THEN 1 ELSE -1

----------------------------------------------------------------------------
(* vectors / dims *)
Dim(v) == Len(v)
VMap2(op(_, _), v, w) == [i \in 1..Len(v) |-> op(v[i], w[i])]
VAdd(v, w) == VMap2(LAMBDA x, y : x + y, v, w)
VSub(v, w) == VMap2(LAMBDA x, y : x - y, v, w)
VMul(v, w) == VMap2(LAMBDA x, y : x * y, v, w)          \* component-wise
VNeg(v) == [i \in 1..Len(v) |-> -v[i]]
VScale(k, v) == [i \in 1..Len(v) |-> k * v[i]]
Dot(v, w) == Sum(LAMBDA i : v[i] * w[i], Len(v))
LengthSquare(v) == Dot(v, v)
Cross(l, r) == <<l[2] * r[3] - l[3] * r[2], l[3] * r[1] - l[1] * r[3], l[1] * r[2] - l[2] * r[1]>>
NarrowCast(v, n) == SubSeq(v, 1, n)                      \* the first n components
PushBack(v, x) == Append(v, x)
StructureCast(v) == v                                    \* value-preserving conversion per component
Null(n) == [i \in 1..n |-> 0]
Fill(n, x) == [i \in 1..n |-> x]
Init(n, f(_)) == [i \in 1..n |-> f(i - 1)]               \* f gets the 0-based index
Contents(d) == Prod(LAMBDA i : d[i], Len(d))
(* lexicographic order *)
Less(v, w) ==
  \E i \in 1..Len(v) : v[i] < w[i] /\ \A j \in 1..(i - 1) : v[j] = w[j]
(* the other three ordering operators as fcppt derives them from < (vector/comparison.hpp,
   dim/comparison.hpp): a > b iff b < a, a <= b iff not b < a, a >= b iff not a < b *)
Gt(v, w) == Less(w, v)
Le(v, w) == ~Less(w, v)
Ge(v, w) == ~Less(v, w)
(* element access for writing: at<i>(v) = x, v.x() = x, ... leave every other component alone *)
SetAt(v, i, x) == [v EXCEPT ![i] = x]
(* bit_strings<N>: 2^N vectors; in the k-th (0-based) one, component i is bit i-1 of k *)
BitStrings(n) == [k \in 1..Pow2(n) |-> [i \in 1..n |-> ((k - 1) \div Pow2(i - 1)) % 2]]

----------------------------------------------------------------------------
(* matrices *)
Rows(A) == Len(A)
Cols(A) == Len(A[1])
MInit(r, c, f(_, _)) == [i \in 1..r |-> [j \in 1..c |-> f(i, j)]]
MMap2(op(_, _), A, B) == MInit(Rows(A), Cols(A), LAMBDA i, j : op(A[i][j], B[i][j]))
MAdd(A, B) == MMap2(LAMBDA x, y : x + y, A, B)
MSub(A, B) == MMap2(LAMBDA x, y : x - y, A, B)
MScale(k, A) == MInit(Rows(A), Cols(A), LAMBDA i, j : k * A[i][j])
MMul(A, B) == MInit(Rows(A), Cols(B), LAMBDA i, j : Sum(LAMBDA k : A[i][k] * B[k][j], Cols(A)))
MVec(A, v) == [i \in 1..Rows(A) |-> Sum(LAMBDA k : A[i][k] * v[k], Cols(A))]
Transpose(A) == MInit(Cols(A), Rows(A), LAMBDA i, j : A[j][i])
Identity(n) == MInit(n, n, LAMBDA i, j : IF i = j THEN 1 ELSE 0)
Row(A, i) == A[i]
At(A, i, j) == A[i][j]
(* the matrix without row r and column c (1-based) *)
Skip(i, d) == IF i >= d THEN i + 1 ELSE i
DeleteRowAndColumn(A, r, c) ==
  MInit(Rows(A) - 1, Cols(A) - 1, LAMBDA i, j : A[Skip(i, r)][Skip(j, c)])
(* determinant by Laplace expansion along the first column *)
RECURSIVE Det(_)
Det(A) ==
  IF Rows(A) = 1 THEN A[1][1]
  ELSE Sum(LAMBDA i : Sign(i + 1) * A[i][1] * Det(DeleteRowAndColumn(A, i, 1)), Rows(A))
(* adjugate: transposed cofactor matrix *)
Minor(A, i, j) == IF Rows(A) = 1 THEN 1 ELSE Det(DeleteRowAndColumn(A, i, j))
Adj(A) == MInit(Rows(A), Rows(A), LAMBDA i, j : Sign(i + j) * Minor(A, j, i))
Translation(x, y, z) == <<<<1, 0, 0, x>>, <<0, 1, 0, y>>, <<0, 0, 1, z>>, <<0, 0, 0, 1>>>>
Scaling(x, y, z) == <<<<x, 0, 0, 0>>, <<0, y, 0, 0>>, <<0, 0, z, 0>>, <<0, 0, 0, 1>>>>
(* writing one element / one row of a matrix (at_r_c<i,j>(A) = x, A.mij() = x, row view = v) *)
MSetAt(A, i, j, x) == [A EXCEPT ![i] = SetAt(A[i], j, x)]
SetRow(A, i, v) == [A EXCEPT ![i] = v]
TransformPoint(A, v) == NarrowCast(MVec(A, PushBack(v, 1)), 3)
TransformDirection(A, v) == NarrowCast(MVec(A, PushBack(v, 0)), 3)

----------------------------------------------------------------------------
(* EXTENSION ROUND: the remaining integer functions of fcppt::math vector / dim / matrix *)
Abs(x) == IF x < 0 THEN -x ELSE x
MaxOfSet(S) == CHOOSE x \in S : \A y \in S : y <= x
(* C++ integer division truncates towards zero; % has the sign of the dividend *)
TruncDiv(a, b) == (IF (a < 0) = (b < 0) THEN 1 ELSE -1) * (Abs(a) \div Abs(b))
CMod(a, b) == a - b * TruncDiv(a, b)
(* fcppt::math::div / mod: "In case divisor is 0, nothing is returned." / "Otherwise % is used.
   Returns nothing if _divisor is zero."  An optional is a sequence of length <= 1 *)
OptDiv(a, b) == IF b = 0 THEN <<>> ELSE <<TruncDiv(a, b)>>
OptMod(a, b) == IF b = 0 THEN <<>> ELSE <<CMod(a, b)>>
(* ceil_div_signed: "In case divisor is 0, nothing is returned. Otherwise, returns the least
   integer that is not less than the exact quotient, for dividends and divisors of either sign." *)
CeilDiv(a, b) ==
  CHOOSE q \in (-(Abs(a) + 1))..(Abs(a) + 1) :
    IF b > 0 THEN q * b >= a /\ (q - 1) * b < a ELSE q * b <= a /\ (q - 1) * b > a
OptCeilDiv(a, b) == IF b = 0 THEN <<>> ELSE <<CeilDiv(a, b)>>
(* a vector of optionals becomes an optional vector: nothing if any component is nothing
   (vector::sequence; operator/, mod and ceil_div_signed of vectors "Returns nothing in case
   _divisor is zero") *)
OptAll(os) == IF \E i \in 1..Len(os) : os[i] = <<>> THEN <<>> ELSE <<[i \in 1..Len(os) |-> os[i][1]]>>
VDiv(v, w) == OptAll([i \in 1..Len(v) |-> OptDiv(v[i], w[i])])
VDivScalar(v, k) == OptAll([i \in 1..Len(v) |-> OptDiv(v[i], k)])
VMod(v, w) == OptAll([i \in 1..Len(v) |-> OptMod(v[i], w[i])])
VModScalar(v, k) == OptAll([i \in 1..Len(v) |-> OptMod(v[i], k)])
VCeilDivSigned(v, k) == OptAll([i \in 1..Len(v) |-> OptCeilDiv(v[i], k)])
(* matrix::inverse: "(1 / det) * adjugate" evaluated in the value type; for integers 1 / det is the
   C++ quotient (1, -1 or 0); det = 0 is outside the domain.
   1x1 matrices (outside the statement's quantifier, observed only): the adjugate of a 1x1 matrix is
   <<<<1>>>> (empty minor = 1); fcppt's Laplace fold over the empty 0x0 minor yields 0, so
   adjugate(1x1) = <<<<0>>>> and inverse(1x1) = 0.  The documentation is silent about 1x1; both values
   are accepted for exactly this shape (see docs/notes_C14.md, round 3) *)
AdjAllowed(A) == IF Rows(A) = 1 THEN {<<<<1>>>>, <<<<0>>>>} ELSE {Adj(A)}
InverseAllowed(A) == {MScale(TruncDiv(1, Det(A)), X) : X \in AdjAllowed(A)}
Inverse(A) == MScale(TruncDiv(1, Det(A)), Adj(A))
(* vector::unit: "all components set to 0 expect for component _axis which is set to 1" (0-based axis) *)
Unit(n, axis) == [i \in 1..n |-> IF i - 1 = axis THEN 1 ELSE 0]
(* dim::is_quadratic: all extents are equal *)
IsQuadratic(d) == \A i \in 1..Len(d) : d[i] = d[1]
(* matrix::infinity_norm: "Calculates the infinity norm" = maximum absolute row sum *)
InfinityNorm(A) == MaxOfSet({Sum(LAMBDA j : Abs(A[i][j]), Cols(A)) : i \in 1..Rows(A)})
(* math::interval_distance(<<a1,b1>>, <<a2,b2>>), a <= b: "Distance can be zero if the intervals touch,
   or negative if they overlap. If they only partially overlap, the distance is negative the common
   length where they overlap. If one completely contains the other, the outer interval is split in
   two parts by the inner one. In this case, the (again negative) length of the shorter part is
   returned. Therefore the distance is zero if the inner interval touches the outer one."
   The set of values the documentation allows: when one interval contains the other AND they share
   an end point, the last sentence says 0 while the partial-overlap rule (which the code applies)
   says minus the common length; both are accepted (see docs/notes_C14.md). *)
IvContains(o, i) == o[1] <= i[1] /\ i[2] <= o[2]
IvStrictlyInside(o, i) == o[1] < i[1] /\ i[2] < o[2]
IvOverlapRule(x, y) == (IF x[1] < y[1] THEN y[1] ELSE x[1]) - (IF x[2] < y[2] THEN x[2] ELSE y[2])   \* max of firsts - min of seconds
IvShorterPart(o, i) == -(IF i[1] - o[1] < o[2] - i[2] THEN i[1] - o[1] ELSE o[2] - i[2])
IntervalDistanceAllowed(x, y) ==
  IF IvStrictlyInside(x, y) THEN {IvShorterPart(x, y)}
  ELSE IF IvStrictlyInside(y, x) THEN {IvShorterPart(y, x)}
  ELSE IF IvContains(x, y) THEN {IvOverlapRule(x, y), IvShorterPart(x, y)}
  ELSE IF IvContains(y, x) THEN {IvOverlapRule(x, y), IvShorterPart(y, x)}
  ELSE {IvOverlapRule(x, y)}
=============================================================================
