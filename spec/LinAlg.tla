------------------------------- MODULE LinAlg -------------------------------
(* C14 - reference linear algebra over the integers (DESIGN.md 3.14).

   A vector (or dim) of dimension N is a function 1..N -> Int, a matrix with R rows and C
   columns is a function 1..R -> (1..C -> Int) (a sequence of rows).  Everything is the
   text-book definition; TLC evaluates it both to check the ring/module laws on small
   matrices (MC_LinAlg) and to judge recorded calls of the real fcppt code (LinAlgJudge). *)
EXTENDS Integers, Sequences, FiniteSets

(* sum of f(1) + ... + f(n) *)
Sum(f(_), n) == LET S[k \in 0..n] == IF k = 0 THEN 0 ELSE S[k - 1] + f(k) IN S[n]
Prod(f(_), n) == LET S[k \in 0..n] == IF k = 0 THEN 1 ELSE S[k - 1] * f(k) IN S[n]
Pow2(n) == Prod(LAMBDA k : 2, n)
Sign(k) == IF k % 2 = 0 THEN 1 ELSE -1

----------------------------------------------------------------------------
(* vectors / dims *)
Dim(v) == Len(v)
VMap2(op(_, _), v, w) == [i \in 1..Len(v) |-> op(v[i], w[i])]
VAdd(v, w) == VMap2(LAMBDA x, y : x + y, v, w)
VSub(v, w) == VMap2(LAMBDA x, y : x - y, v, w)
VMul(v, w) == VMap2(LAMBDA x, y : x * y, v, w)          \* component-wise
VNeg(v) == [i \in 1..Len(v) |-> -v[i]]
VScale(k, v) == [i \in 1..Len(v) |-> k * v[i]]
Dot(v, w) == Sum(LAMBDA i : v[i] * w[i], Len(v))
LengthSquare(v) == Dot(v, v)
Cross(l, r) == <<l[2] * r[3] - l[3] * r[2], l[3] * r[1] - l[1] * r[3], l[1] * r[2] - l[2] * r[1]>>
NarrowCast(v, n) == SubSeq(v, 1, n)                      \* the first n components
PushBack(v, x) == Append(v, x)
StructureCast(v) == v                                    \* value-preserving conversion per component
Null(n) == [i \in 1..n |-> 0]
Fill(n, x) == [i \in 1..n |-> x]
Init(n, f(_)) == [i \in 1..n |-> f(i - 1)]               \* f gets the 0-based index
Contents(d) == Prod(LAMBDA i : d[i], Len(d))
(* lexicographic order *)
Less(v, w) ==
  \E i \in 1..Len(v) : v[i] < w[i] /\ \A j \in 1..(i - 1) : v[j] = w[j]
(* bit_strings<N>: 2^N vectors; in the k-th (0-based) one, component i is bit i-1 of k *)
BitStrings(n) == [k \in 1..Pow2(n) |-> [i \in 1..n |-> ((k - 1) \div Pow2(i - 1)) % 2]]

----------------------------------------------------------------------------
(* matrices *)
Rows(A) == Len(A)
Cols(A) == Len(A[1])
MInit(r, c, f(_, _)) == [i \in 1..r |-> [j \in 1..c |-> f(i, j)]]
MMap2(op(_, _), A, B) == MInit(Rows(A), Cols(A), LAMBDA i, j : op(A[i][j], B[i][j]))
MAdd(A, B) == MMap2(LAMBDA x, y : x + y, A, B)
MSub(A, B) == MMap2(LAMBDA x, y : x - y, A, B)
MScale(k, A) == MInit(Rows(A), Cols(A), LAMBDA i, j : k * A[i][j])
MMul(A, B) == MInit(Rows(A), Cols(B), LAMBDA i, j : Sum(LAMBDA k : A[i][k] * B[k][j], Cols(A)))
MVec(A, v) == [i \in 1..Rows(A) |-> Sum(LAMBDA k : A[i][k] * v[k], Cols(A))]
Transpose(A) == MInit(Cols(A), Rows(A), LAMBDA i, j : A[j][i])
Identity(n) == MInit(n, n, LAMBDA i, j : IF i = j THEN 1 ELSE 0)
Row(A, i) == A[i]
At(A, i, j) == A[i][j]
(* the matrix without row r and column c (1-based) *)
Skip(i, d) == IF i >= d THEN i + 1 ELSE i
DeleteRowAndColumn(A, r, c) ==
  MInit(Rows(A) - 1, Cols(A) - 1, LAMBDA i, j : A[Skip(i, r)][Skip(j, c)])
(* determinant by Laplace expansion along the first column *)
RECURSIVE Det(_)
Det(A) ==
  IF Rows(A) = 1 THEN A[1][1]
  ELSE Sum(LAMBDA i : Sign(i + 1) * A[i][1] * Det(DeleteRowAndColumn(A, i, 1)), Rows(A))
(* adjugate: transposed cofactor matrix *)
Minor(A, i, j) == IF Rows(A) = 1 THEN 1 ELSE Det(DeleteRowAndColumn(A, i, j))
Adj(A) == MInit(Rows(A), Rows(A), LAMBDA i, j : Sign(i + j) * Minor(A, j, i))
Translation(x, y, z) == <<<<1, 0, 0, x>>, <<0, 1, 0, y>>, <<0, 0, 1, z>>, <<0, 0, 0, 1>>>>
Scaling(x, y, z) == <<<<x, 0, 0, 0>>, <<0, y, 0, 0>>, <<0, 0, z, 0>>, <<0, 0, 0, 1>>>>
TransformPoint(A, v) == NarrowCast(MVec(A, PushBack(v, 1)), 3)
TransformDirection(A, v) == NarrowCast(MVec(A, PushBack(v, 0)), 3)
=============================================================================
