SPECIFICATION Spec
CONSTANTS
  Sym = {97, 98, 32, 48}
  MaxLen = 3
  Bug = "loc"
INVARIANTS Laws EntryLaw FamilyOK
CHECK_DEADLOCK FALSE
