SPECIFICATION SpecPairs
CONSTANTS
  PairVals <- Vm1to1
  TripleVals <- Vm1to1
  TripleValsC <- Vm1to1
  CubeVals <- Vm1to1
  CubeVals23 <- Vm1to1
INVARIANT NormLaws
INVARIANT DivModLaws
INVARIANT VectorOptLaws
INVARIANT IntervalLaws
INVARIANT AccessLaws
INVARIANT OrderLaws
CHECK_DEADLOCK FALSE
