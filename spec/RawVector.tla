--------------------------- MODULE RawVector ---------------------------
(* Abstract specification of fcppt::container::raw_vector::object and
   fcppt::container::buffer::object (property C07).

   A raw_vector is a finite sequence (std::vector's meaning); a buffer is a read
   area (sequence) followed by a write area of a given size.  One operator per
   public operation defines the new abstract value AND the returned iterator
   offset / boolean.  Capacity and allocation are deliberately left open here
   (only cap >= size and the heap discipline of RawVectorTrace are demanded),
   so that a legitimate change of growth policy is accepted.

   The same operators are used
     - by MC_RawVector.cfg (Init/Next below) to explore all histories over small
       constants, to state sanity theorems and to emit operation scripts that the
       harness replays on the real code, and
     - by RawVectorTrace.tla to judge every recorded operation of the real code. *)
EXTENDS Naturals, Integers, Sequences, FiniteSets, TLC, Json

CONSTANTS NV,       \* number of raw_vector slots
          NB,       \* number of buffer slots
          Val,      \* element values used by the model checker
          MaxLen,   \* bound on sequence lengths explored by the model checker
          MaxW      \* bound on write-area sizes explored by the model checker

-----------------------------------------------------------------------------
(* sequence helpers; positions are 0-based offsets as in iterator - begin() *)
InsertAt(s, p, xs) == SubSeq(s, 1, p) \o xs \o SubSeq(s, p + 1, Len(s))
RemoveRange(s, a, b) == SubSeq(s, 1, a) \o SubSeq(s, b + 1, Len(s))
Rep(n, x) == [i \in 1..n |-> x]
Prefix(s, n) == SubSeq(s, 1, n)

RECURSIVE LexLess(_, _)
LexLess(s, t) ==
  IF t = <<>> THEN FALSE
  ELSE IF s = <<>> THEN TRUE
  ELSE IF Head(s) < Head(t) THEN TRUE
  ELSE IF Head(t) < Head(s) THEN FALSE
  ELSE LexLess(Tail(s), Tail(t))

DeadV == [live |-> FALSE, elems |-> <<>>]
LiveV(s) == [live |-> TRUE, elems |-> s]
DeadB == [live |-> FALSE, read |-> <<>>, wsize |-> 0]
DeadD == [live |-> FALSE, size |-> 0, cells |-> <<>>, filled |-> FALSE]
LiveB(r, w) == [live |-> TRUE, read |-> r, wsize |-> w]

(* An operation is a record with all of these fields (the harness logs all of them). *)
BaseOp == [op |-> "", o |-> 0, o2 |-> 0, pos |-> 0, pos2 |-> 0, n |-> 0, x |-> 0, k |-> 0,
           alias |-> -1, xs |-> <<>>, kind |-> "fwd", some |-> TRUE]

(* The value argument: either a fresh value or (alias >= 0) a reference to element
   alias of the vector itself.  std::vector's contract: the value the element had
   BEFORE the call is inserted. *)
ArgVal(S, a) == IF a.alias >= 0 THEN S[a.alias + 1] ELSE a.x

VectorOps == {"ctor_default", "ctor_fill", "ctor_range", "ctor_init", "move_ctor", "destroy",
              "push_back", "pop_back", "insert1", "insertn", "insert_range", "erase1",
              "erase_range", "resize", "reserve", "shrink_to_fit", "clear", "swap", "swap_free",
              "move_assign", "set", "eq", "ne", "lt", "le", "gt", "ge"}
BufferOps == {"bctor", "bdestroy", "bresize_write", "bwrite", "bappend_from", "bappend_from_opt",
              "bread_from", "bmove_ctor", "bmove_assign", "bswap", "to_raw_vector"}

(* API preconditions (those of std::vector / the documented ones of buffer). *)
Pre(st, a) ==
  LET vl(i) == i \in 1..NV /\ st.vs[i].live
      vd(i) == i \in 1..NV /\ ~st.vs[i].live
      bl(i) == i \in 1..NB /\ st.bs[i].live
      bd(i) == i \in 1..NB /\ ~st.bs[i].live
      sz == IF vl(a.o) THEN Len(st.vs[a.o].elems) ELSE 0
      aliasok == a.alias = -1 \/ (a.alias >= 0 /\ a.alias < sz)
  IN CASE a.op \in {"ctor_default", "ctor_fill", "ctor_range", "ctor_init"} -> vd(a.o) /\ a.n >= 0
       [] a.op = "move_ctor" -> vd(a.o) /\ vl(a.o2)
       [] a.op \in {"destroy", "reserve", "shrink_to_fit", "clear", "resize"} -> vl(a.o) /\ a.n >= 0
       [] a.op = "push_back" -> vl(a.o) /\ aliasok
       [] a.op = "pop_back" -> vl(a.o) /\ sz > 0
       [] a.op \in {"insert1", "insertn"} -> vl(a.o) /\ a.pos \in 0..sz /\ aliasok /\ a.n >= 0
       [] a.op = "insert_range" -> vl(a.o) /\ a.pos \in 0..sz
       [] a.op = "erase1" -> vl(a.o) /\ a.pos \in 0..(sz - 1)
       [] a.op = "erase_range" -> vl(a.o) /\ a.pos \in 0..sz /\ a.pos2 \in a.pos..sz
       [] a.op = "set" -> vl(a.o) /\ a.pos \in 0..(sz - 1)
       [] a.op \in {"swap", "swap_free", "move_assign"} -> vl(a.o) /\ vl(a.o2) /\ a.o # a.o2
       [] a.op \in {"eq", "ne", "lt", "le", "gt", "ge"} -> vl(a.o) /\ vl(a.o2)
       [] a.op \in {"bctor", "bread_from"} -> bd(a.o) /\ a.n >= 0 /\ Len(a.xs) <= a.n
       [] a.op \in {"bdestroy", "bresize_write"} -> bl(a.o) /\ a.n >= 0
       [] a.op = "bwrite" -> bl(a.o) /\ Len(a.xs) <= st.bs[a.o].wsize
       [] a.op \in {"bappend_from", "bappend_from_opt"} -> bl(a.o) /\ a.n >= 0 /\ Len(a.xs) <= a.n
       [] a.op = "bmove_ctor" -> bd(a.o) /\ bl(a.o2)
       [] a.op \in {"bmove_assign", "bswap"} -> bl(a.o) /\ bl(a.o2) /\ a.o # a.o2
       [] a.op = "to_raw_vector" -> bl(a.o) /\ vd(a.o2)
       [] a.op = "dctor" -> ~st.da.live /\ a.n >= 0
       [] a.op \in {"ddestroy", "dfill"} -> st.da.live
       [] OTHER -> FALSE

(* Effect of an operation: new abstract state, returned iterator offset (ret, -1 if the
   operation returns none), returned boolean (rb) and the set of objects whose value the
   contract leaves unspecified (moved-from sources of an assignment / buffer moves). *)
Eff(st, a) ==
  LET S == IF a.o \in 1..NV /\ a.op \in VectorOps THEN st.vs[a.o].elems ELSE <<>>
      S2 == IF a.o2 \in 1..NV /\ a.op \in VectorOps THEN st.vs[a.o2].elems ELSE <<>>
      R(vs, bs, ret, rb, free) == [vs |-> vs, bs |-> bs, da |-> st.da, ret |-> ret, rb |-> rb, free |-> free]
      RD(d) == [vs |-> st.vs, bs |-> st.bs, da |-> d, ret |-> -1, rb |-> FALSE, free |-> {}]
      SetV(s) == R([st.vs EXCEPT ![a.o] = LiveV(s)], st.bs, -1, FALSE, {})
      SetVR(s, ret) == R([st.vs EXCEPT ![a.o] = LiveV(s)], st.bs, ret, FALSE, {})
      Cmp(b) == R(st.vs, st.bs, -1, b, {})
      Bf == IF a.o \in 1..NB /\ a.op \in BufferOps THEN st.bs[a.o] ELSE DeadB
      SetB(r, w) == R(st.vs, [st.bs EXCEPT ![a.o] = LiveB(r, w)], -1, FALSE, {})
  IN CASE a.op = "ctor_default" -> SetV(<<>>)
       [] a.op = "ctor_fill" -> SetV(Rep(a.n, a.x))
       [] a.op \in {"ctor_range", "ctor_init"} -> SetV(a.xs)
       [] a.op = "move_ctor" ->
            \* std::vector: the source of a move construction is left empty
            R([st.vs EXCEPT ![a.o] = LiveV(S2), ![a.o2] = LiveV(<<>>)], st.bs, -1, FALSE, {})
       [] a.op = "destroy" -> R([st.vs EXCEPT ![a.o] = DeadV], st.bs, -1, FALSE, {})
       [] a.op = "push_back" -> SetV(Append(S, ArgVal(S, a)))
       [] a.op = "pop_back" -> SetV(Prefix(S, Len(S) - 1))
       [] a.op = "insert1" -> SetVR(InsertAt(S, a.pos, <<ArgVal(S, a)>>), a.pos)
       [] a.op = "insertn" -> SetV(InsertAt(S, a.pos, Rep(a.n, ArgVal(S, a))))
       [] a.op = "insert_range" -> SetV(InsertAt(S, a.pos, a.xs))
       [] a.op = "erase1" -> SetVR(RemoveRange(S, a.pos, a.pos + 1), a.pos)
       [] a.op = "erase_range" ->
            \* returns the position following the last removed element, i.e. offset pos
            SetVR(RemoveRange(S, a.pos, a.pos2), a.pos)
       [] a.op = "resize" ->
            SetV(IF a.n <= Len(S) THEN Prefix(S, a.n) ELSE S \o Rep(a.n - Len(S), a.x))
       [] a.op \in {"reserve", "shrink_to_fit"} -> SetV(S)
       [] a.op = "clear" -> SetV(<<>>)
       [] a.op = "set" -> SetV([S EXCEPT ![a.pos + 1] = a.x])
       [] a.op \in {"swap", "swap_free"} ->
            R([st.vs EXCEPT ![a.o] = LiveV(S2), ![a.o2] = LiveV(S)], st.bs, -1, FALSE, {})
       [] a.op = "move_assign" ->
            \* the moved-from source is "valid but unspecified"
            R([st.vs EXCEPT ![a.o] = LiveV(S2)], st.bs, -1, FALSE, {<<"v", a.o2>>})
       [] a.op = "eq" -> Cmp(S = S2)
       [] a.op = "ne" -> Cmp(S # S2)
       [] a.op = "lt" -> Cmp(LexLess(S, S2))
       [] a.op = "le" -> Cmp(~LexLess(S2, S))
       [] a.op = "gt" -> Cmp(LexLess(S2, S))
       [] a.op = "ge" -> Cmp(~LexLess(S, S2))
       \* ------------------------------------------------------------ buffer
       [] a.op = "bctor" -> SetB(<<>>, a.n)
       [] a.op = "bdestroy" -> R(st.vs, [st.bs EXCEPT ![a.o] = DeadB], -1, FALSE, {})
       [] a.op = "bresize_write" -> SetB(Bf.read, a.n)
       [] a.op = "bwrite" -> SetB(Bf.read \o a.xs, Bf.wsize - Len(a.xs))
       [] a.op = "bappend_from" ->
            \* the function is called once with a write area of exactly n cells (ret = n)
            R(st.vs, [st.bs EXCEPT ![a.o] = LiveB(Bf.read \o a.xs, a.n - Len(a.xs))], a.n, FALSE, {})
       [] a.op = "bappend_from_opt" ->
            IF a.some
            THEN R(st.vs, [st.bs EXCEPT ![a.o] = LiveB(Bf.read \o a.xs, a.n - Len(a.xs))], a.n, TRUE, {})
            ELSE R(st.vs, [st.bs EXCEPT ![a.o] = LiveB(Bf.read, a.n)], a.n, FALSE, {})
       [] a.op = "bread_from" ->
            R(st.vs, [st.bs EXCEPT ![a.o] = LiveB(a.xs, a.n - Len(a.xs))], a.n, FALSE, {})
       [] a.op = "bmove_ctor" ->
            R(st.vs, [st.bs EXCEPT ![a.o] = st.bs[a.o2]], -1, FALSE, {<<"b", a.o2>>})
       [] a.op = "bmove_assign" ->
            R(st.vs, [st.bs EXCEPT ![a.o] = st.bs[a.o2]], -1, FALSE, {<<"b", a.o2>>})
       [] a.op = "bswap" ->
            R(st.vs, [st.bs EXCEPT ![a.o] = st.bs[a.o2], ![a.o2] = st.bs[a.o]], -1, FALSE, {})
       [] a.op = "to_raw_vector" ->
            \* "hands exactly its read area" to the new vector; the buffer is moved from
            R([st.vs EXCEPT ![a.o2] = LiveV(Bf.read)], st.bs, -1, FALSE, {<<"b", a.o>>})
       \* ------------------------------------------------------------ dynamic_array
       \* a fixed-size block of n uninitialised cells; dfill writes x, x+1, ... through data()
       [] a.op = "dctor" -> RD([live |-> TRUE, size |-> a.n, cells |-> <<>>, filled |-> FALSE])
       [] a.op = "ddestroy" -> RD(DeadD)
       [] a.op = "dfill" -> RD([live |-> TRUE, size |-> st.da.size, cells |-> [i \in 1..st.da.size |-> a.x + i - 1], filled |-> TRUE])

(* io::read_chars(stream, count): the next count characters, or nothing if fewer remain. *)
ReadChars(text, skip, count) ==
  IF skip + count <= Len(text)
  THEN [some |-> TRUE, data |-> SubSeq(text, skip + 1, skip + count)]
  ELSE [some |-> FALSE, data |-> <<>>]

-----------------------------------------------------------------------------
(* Model: all histories over small constants. *)
VARIABLES st, hist
vars == <<st, hist>>

SeqsUpTo(n) == UNION {[1..k -> Val] : k \in 0..n}

Init ==
  /\ st = [vs |-> [i \in 1..NV |-> DeadV], bs |-> [i \in 1..NB |-> DeadB], da |-> DeadD]
  /\ hist = <<>>

(* every operation instance that is valid in state s and stays within the bounds *)
OpsOf(s) ==
  LET lv == {i \in 1..NV : s.vs[i].live}
      dv == {i \in 1..NV : ~s.vs[i].live}
      lb == {i \in 1..NB : s.bs[i].live}
      db == {i \in 1..NB : ~s.bs[i].live}
      len(i) == Len(s.vs[i].elems)
      room(i) == MaxLen - len(i)
      B == BaseOp
  IN  IF s.da.live THEN {[B EXCEPT !.op = "ddestroy"]} \cup {[B EXCEPT !.op = "dfill", !.x = x] : x \in Val} ELSE
      {[B EXCEPT !.op = "ctor_default", !.o = i] : i \in dv}
  \cup {[B EXCEPT !.op = "ctor_fill", !.o = i, !.n = n, !.x = x] : i \in dv, n \in 0..MaxLen, x \in Val}
  \cup {[B EXCEPT !.op = "ctor_range", !.o = i, !.xs = xs, !.kind = k] : i \in dv, xs \in SeqsUpTo(MaxLen), k \in {"fwd", "input"}}
  \cup {[B EXCEPT !.op = "ctor_init", !.o = i, !.xs = xs] : i \in dv, xs \in SeqsUpTo(MaxLen)}
  \cup {[B EXCEPT !.op = "move_ctor", !.o = i, !.o2 = j] : i \in dv, j \in lv}
  \cup {[B EXCEPT !.op = "destroy", !.o = i] : i \in lv}
  \cup {[B EXCEPT !.op = "push_back", !.o = i, !.x = x] : i \in {j \in lv : room(j) >= 1}, x \in Val}
  \cup UNION {{[B EXCEPT !.op = "push_back", !.o = i, !.alias = al] : al \in 0..(len(i) - 1)} : i \in {j \in lv : room(j) >= 1}}
  \cup {[B EXCEPT !.op = "pop_back", !.o = i] : i \in {j \in lv : len(j) > 0}}
  \cup UNION {{[B EXCEPT !.op = "insert1", !.o = i, !.pos = p, !.x = x] : p \in 0..len(i), x \in Val} : i \in {j \in lv : room(j) >= 1}}
  \cup UNION {{[B EXCEPT !.op = "insert1", !.o = i, !.pos = p, !.alias = al] : p \in 0..len(i), al \in 0..(len(i) - 1)} : i \in {j \in lv : room(j) >= 1}}
  \cup UNION {{[B EXCEPT !.op = "insertn", !.o = i, !.pos = p, !.n = n, !.x = x] : p \in 0..len(i), n \in 0..room(i), x \in Val} : i \in lv}
  \cup UNION {{[B EXCEPT !.op = "insertn", !.o = i, !.pos = p, !.n = n, !.alias = al] : p \in 0..len(i), n \in 0..room(i), al \in 0..(len(i) - 1)} : i \in lv}
  \cup UNION {{[B EXCEPT !.op = "insert_range", !.o = i, !.pos = p, !.xs = xs, !.kind = k] : p \in 0..len(i), xs \in SeqsUpTo(room(i)), k \in {"fwd", "input"}} : i \in lv}
  \cup UNION {{[B EXCEPT !.op = "erase1", !.o = i, !.pos = p] : p \in 0..(len(i) - 1)} : i \in lv}
  \cup UNION {{[B EXCEPT !.op = "erase_range", !.o = i, !.pos = pq[1], !.pos2 = pq[2]] : pq \in {w \in (0..len(i)) \X (0..len(i)) : w[1] <= w[2]}} : i \in lv}
  \cup {[B EXCEPT !.op = "resize", !.o = i, !.n = n, !.x = x] : i \in lv, n \in 0..MaxLen, x \in Val}
  \cup {[B EXCEPT !.op = "reserve", !.o = i, !.n = n] : i \in lv, n \in 0..(MaxLen + 2)}
  \cup {[B EXCEPT !.op = o, !.o = i] : i \in lv, o \in {"shrink_to_fit", "clear"}}
  \cup UNION {{[B EXCEPT !.op = "set", !.o = i, !.pos = p, !.x = x] : p \in 0..(len(i) - 1), x \in Val} : i \in lv}
  \cup {[B EXCEPT !.op = o, !.o = ij[1], !.o2 = ij[2]] : ij \in {w \in lv \X lv : w[1] # w[2]}, o \in {"swap", "swap_free", "move_assign"}}
  \cup {[B EXCEPT !.op = o, !.o = i, !.o2 = j] : i \in lv, j \in lv, o \in {"eq", "ne", "lt", "le", "gt", "ge"}}
  \cup {[B EXCEPT !.op = "bctor", !.o = i, !.n = n] : i \in db, n \in 0..MaxW}
  \cup UNION {{[B EXCEPT !.op = "bread_from", !.o = i, !.n = n, !.xs = xs] : xs \in SeqsUpTo(IF n < MaxLen THEN n ELSE MaxLen), i \in db} : n \in 0..MaxW}
  \cup {[B EXCEPT !.op = "bdestroy", !.o = i] : i \in lb}
  \cup {[B EXCEPT !.op = "bresize_write", !.o = i, !.n = n] : i \in lb, n \in 0..MaxW}
  \cup UNION {{[B EXCEPT !.op = "bwrite", !.o = i, !.xs = xs] : xs \in SeqsUpTo(IF s.bs[i].wsize < MaxLen - Len(s.bs[i].read) THEN s.bs[i].wsize ELSE MaxLen - Len(s.bs[i].read))} : i \in lb}
  \cup UNION {UNION {{[B EXCEPT !.op = o, !.o = i, !.n = n, !.xs = xs] : xs \in SeqsUpTo(IF n < MaxLen - Len(s.bs[i].read) THEN n ELSE MaxLen - Len(s.bs[i].read)), o \in {"bappend_from", "bappend_from_opt"}} : n \in 0..MaxW} : i \in lb}
  \cup {[B EXCEPT !.op = "bappend_from_opt", !.o = i, !.n = n, !.some = FALSE] : i \in lb, n \in 0..MaxW}
  \cup {[B EXCEPT !.op = "bmove_ctor", !.o = i, !.o2 = j] : i \in db, j \in lb}
  \cup {[B EXCEPT !.op = o, !.o = ij[1], !.o2 = ij[2]] : ij \in {w \in lb \X lb : w[1] # w[2]}, o \in {"bmove_assign", "bswap"}}
  \cup {[B EXCEPT !.op = "to_raw_vector", !.o = i, !.o2 = j] : i \in lb, j \in dv}
  \cup (\* model bound: the dynamic_array slot is explored on its own (sum, not product, of state spaces)
        IF lv # {} \/ lb # {} THEN {}
        ELSE IF s.da.live THEN {[B EXCEPT !.op = "ddestroy"]} \cup {[B EXCEPT !.op = "dfill", !.x = x] : x \in Val}
        ELSE {[B EXCEPT !.op = "dctor", !.n = n] : n \in 0..(MaxW + 1)})

(* Unspecified (moved-from) objects are resolved to the empty value in the model. *)
Resolve(e) ==
  [vs |-> [i \in 1..NV |-> IF <<"v", i>> \in e.free THEN LiveV(<<>>) ELSE e.vs[i]],
   bs |-> [i \in 1..NB |-> IF <<"b", i>> \in e.free THEN LiveB(<<>>, 0) ELSE e.bs[i]],
   da |-> e.da]

Step(a) ==
  /\ Pre(st, a)
  /\ st' = Resolve(Eff(st, a))
  /\ hist' = Append(hist, a)

Next == \E a \in OpsOf(st) : Step(a)

Spec == Init /\ [][Next]_vars

View == st

-----------------------------------------------------------------------------
(* Sanity theorems of the model (they make the oracle trustworthy). *)
TypeOK ==
  /\ \A i \in 1..NV : st.vs[i].live \in BOOLEAN /\ Len(st.vs[i].elems) <= MaxLen
                      /\ \A k \in 1..Len(st.vs[i].elems) : st.vs[i].elems[k] \in Val
  /\ \A i \in 1..NB : Len(st.bs[i].read) <= MaxLen /\ st.bs[i].wsize \in 0..MaxW
  /\ \A i \in 1..NV : ~st.vs[i].live => st.vs[i] = DeadV

(* every generated operation satisfies the API precondition (the generator is sound) *)
GeneratorSound == \A a \in OpsOf(st) : Pre(st, a)

(* insert followed by erase at the same position is the identity; erase_range of nothing
   and insertn of nothing are identities; lengths add up *)
Laws ==
  \A i \in 1..NV : st.vs[i].live =>
    LET S == st.vs[i].elems IN
    /\ \A p \in 0..Len(S), x \in Val :
         /\ RemoveRange(InsertAt(S, p, <<x>>), p, p + 1) = S
         /\ Len(InsertAt(S, p, <<x>>)) = Len(S) + 1
         /\ InsertAt(S, p, <<x>>)[p + 1] = x
         /\ InsertAt(S, p, <<>>) = S
         /\ RemoveRange(S, p, p) = S
    /\ \A p \in 0..Len(S), q \in 0..Len(S) : p <= q => Len(RemoveRange(S, p, q)) = Len(S) - (q - p)
    /\ \A j \in 1..NV : st.vs[j].live =>
         LET U == st.vs[j].elems IN
         \* the order is a strict total order compatible with equality
         /\ (LexLess(S, U) \/ LexLess(U, S) \/ S = U)
         /\ ~(LexLess(S, U) /\ LexLess(U, S))
         /\ ~LexLess(S, S)

(* script emission: with EmitScripts as a CONSTRAINT TLC prints the operation history of
   every generated transition (the constraint is evaluated on every successor state) *)
EmitScripts == PrintT("SCRIPT " \o ToJson(hist))
=============================================================================
