SPECIFICATION SpecSeq
CONSTANTS
  MaxLen = 4
  SetMax = 3
  BinarySearch <- BinarySearchNonSingular
INVARIANT BinarySearchLaws
