SPECIFICATION Spec
CONSTANTS
  MaxD = 6
  Origins <- OriginSet
  SpiralBug = 0
VIEW View
CONSTRAINT Bounded
INVARIANTS InDisk NoRevisit Rings AtEnd
