---------------------------- MODULE MCRandomState ----------------------------
(* Model check of the hidden-state part of Random.tla (C20): draws interleaved with reset().

   Stand-in for a standard distribution WITH hidden state (ModelPair, the shape of the polar
   method of std::normal_distribution): a draw with an empty cache consumes two raw values,
   returns one value and caches a second one (a pair of raw values may be rejected); a draw with
   a full cache returns the cached value and consumes nothing; reset() empties the cache.

   Three runs advance together on the same script:
     w  the wrapper (Random!WrapperDrawH / WrapperReset, possibly with a seeded defect),
     s  the wrapped distribution driven through the same operations (lock-step reference),
     f  at every reset a FRESH distribution with the same parameters is started at the engine
        position of the wrapper; it only draws.
   Initial states: all scripts of length <= SL over 0..SR x parameter sets; behaviours: every
   interleaving of draws with at most MaxResets resets.                                        *)
EXTENDS Random, TLC

CONSTANTS SR, SL, MaxResets, MaxCopies, Bug

VARIABLES par, script,
          wh, wc, wv, wex,        \* wrapper: hidden state, cursor, all values, exhausted
          sh, sc, sv, sex,        \* reference distribution
          nres, ncp,              \* resets / copies so far
          wpost,                  \* wrapper values since the last reset
          fh, fc, fv, fex         \* fresh distribution started at the last reset
vars == <<par, script, wh, wc, wv, wex, sh, sc, sv, sex, nres, ncp, wpost, fh, fc, fv, fex>>

NoCache == <<>>

RECURSIVE ModelPair(_, _, _, _)
ModelPair(p, h, scr, cur) ==
  IF h # NoCache THEN [val |-> h[1], cursor |-> cur, ex |-> FALSE, hidden |-> NoCache]
  ELSE IF cur + 2 > Len(scr) THEN [val |-> 0, cursor |-> Len(scr), ex |-> TRUE, hidden |-> NoCache]
  ELSE LET x == scr[cur + 1]
           y == scr[cur + 2]
       IN IF x = 0 /\ y = 0 THEN ModelPair(p, h, scr, cur + 2)      \* rejected pair
          ELSE [val |-> p.a + p.b * (x - y), cursor |-> cur + 2, ex |-> FALSE, hidden |-> <<p.a + p.b * (x + y)>>]

\* the wrapper's reset, with seeded defects for the vacuity guards
Reset(h) ==
  CASE Bug = "reset_keeps_cache" -> h            \* e.g. re-applies the parameters instead
    [] OTHER -> WrapperReset(NoCache, h)

Draw(k, p, h, scr, cur) ==
  CASE Bug = "draw_drops_cache" ->               \* the wrapper forgets the hidden state between draws
         WrapperDrawH(ModelPair, k, p, NoCache, scr, cur)
    [] OTHER -> WrapperDrawH(ModelPair, k, p, h, scr, cur)

\* the wrapper object is replaced by a copy of itself (copy of a distribution::basic, a variate made
\* from the distribution object, a copied / moved variate)
Copy(h) ==
  CASE Bug = "copy_drops_hidden_state" -> NoCache   \* e.g. the copy is rebuilt from param()
    [] OTHER -> WrapperCopy(h)

Kind == "strong"

Init ==
  /\ script \in UNION {[1..n -> 0..SR] : n \in 0..SL}
  /\ par \in {[a |-> Decorate(Kind, m), b |-> Decorate(Kind, d)] : m \in {0, 10}, d \in {1, 3}}
  /\ wh = NoCache /\ wc = 0 /\ wv = <<>> /\ wex = FALSE
  /\ sh = NoCache /\ sc = 0 /\ sv = <<>> /\ sex = FALSE
  /\ nres = 0 /\ ncp = 0 /\ wpost = <<>>
  /\ fh = NoCache /\ fc = 0 /\ fv = <<>> /\ fex = FALSE

DoDraw ==
  /\ ~wex /\ ~sex
  /\ LET w == Draw(Kind, par, wh, script, wc)
         s == ModelPair(BaseParams(Kind, par), sh, script, sc)
         f == ModelPair(BaseParams(Kind, par), fh, script, fc)
     IN /\ wh' = w.hidden /\ wc' = w.cursor /\ wex' = w.ex
        /\ wv' = IF w.ex THEN wv ELSE Append(wv, Base(Kind, w.val))
        /\ wpost' = IF w.ex THEN wpost ELSE Append(wpost, Base(Kind, w.val))
        /\ sh' = s.hidden /\ sc' = s.cursor /\ sex' = s.ex /\ sv' = IF s.ex THEN sv ELSE Append(sv, s.val)
        /\ IF fex THEN UNCHANGED <<fh, fc, fv, fex>>
           ELSE /\ fh' = f.hidden /\ fc' = f.cursor /\ fex' = f.ex /\ fv' = IF f.ex THEN fv ELSE Append(fv, f.val)
  /\ UNCHANGED <<par, script, nres, ncp>>

\* the reference copies the wrapped distribution object: its hidden state is unchanged
DoCopy ==
  /\ ~wex /\ ~sex
  /\ ncp < MaxCopies
  /\ ncp' = ncp + 1
  /\ wh' = Copy(wh)
  /\ UNCHANGED <<par, script, wc, wv, wex, sh, sc, sv, sex, nres, wpost, fh, fc, fv, fex>>

DoReset ==
  /\ ~wex /\ ~sex
  /\ nres < MaxResets
  /\ nres' = nres + 1
  /\ wh' = Reset(wh)
  /\ sh' = NoCache
  /\ wpost' = <<>>
  /\ fh' = NoCache /\ fc' = wc /\ fv' = <<>> /\ fex' = FALSE
  /\ UNCHANGED <<par, script, wc, wv, wex, sc, sv, sex, ncp>>

Next == DoDraw \/ DoReset \/ DoCopy
Spec == Init /\ [][Next]_vars

\* lock-step with the wrapped distribution driven through the same operations
LawTransparentH == wv = sv /\ wc = sc /\ wex = sex

\* after reset() the wrapper's future is that of a fresh distribution with the same parameters
\* on the same engine state (before the first reset the distribution itself is the fresh one)
LawResetFresh == wpost = fv /\ wc = fc /\ wex = fex

\* a copy carries the hidden state (checked directly; LawTransparentH sees the consequences)
LawCopyKeeps == [][ncp' = ncp + 1 => wh' = wh]_vars

\* values do not depend on raw values consumed before the last reset: the hidden state after a
\* reset is the initial one
LawResetClears == (wpost = <<>> /\ nres > 0 /\ ~wex) => wh = NoCache

LawCursorH == wc \in 0..Len(script)
=============================================================================
