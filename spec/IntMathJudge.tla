---------------------------- MODULE IntMathJudge ----------------------------
(* Judge of the call records of harness/c06_intmath.cpp (property C06): every
   recorded result of the real fcppt functions is compared with IntMath.tla
   (operands that fit TLC integers) or IntMathWide.tla (32/64-bit operands as
   BigNat limbs).  The harness has no expected values.

   Record formats (one JSON object per line):
     narrow rows   w = 0: f, S, D, n, a, b, c, x0, xs, rs, ex
        the last operand x runs over x0, x0+1, ... (xs = []) or over xs; rs[i] is the result for
        the i-th x: an integer, or NoneCode for an empty optional, ExcCode if the call threw,
        BigCode for a value that is not a small integer; booleans are 0/1.
        S/D: operand and result type (truncation_check: source/destination; from_int: argument
        type / underlying type of the enum, n = number of enumerators); a, b, c: fixed operands.
     wide records  w = 1: f, S, D, n, a, b, c (numbers as [s, m] limb records), e (small integer
        operand: exponent / shift count), r = [] | [number] | TRUE | FALSE, ex (0 | 1)

   Accepted = the definition when the exact result is representable in the result type; anything
   when it is not or when the documentation excludes the argument (log2(0)).  See
   docs/notes_C06.md for the readings taken where the statement is ambiguous (unsigned diff,
   floor for log2, truncation for div).                                                        *)
EXTENDS IntMathWide, RecordLoop, FiniteSets

NoneCode == 1000000
ExcCode == 1000001
BigCode == 1000002

(* representability of a TLC-integer value v in any of the eight types *)
Rep(ty, v) == IF Small(ty) THEN Representable(ty, v) ELSE (Signed(ty) \/ v >= 0)

X(r, i) == IF Len(r.xs) > 0 THEN r.xs[i] ELSE r.x0 + (i - 1)
Enc(o) == IF o = None THEN NoneCode ELSE o[1]
B01(p) == IF p THEN 1 ELSE 0

\* ------------------------------------------------------------------ narrow rows
(* the specification says "nothing" (used to classify a rejected result) *)
NarrowExpectNone(r, x) ==
  CASE r.f = "truncation_check" -> ~Rep(r.D, x)
    [] r.f = "from_int" -> x >= r.n
    [] r.f \in {"ceil_div", "ceil_div_signed", "div", "mod"} -> x = 0
    [] r.f = "clamp" -> r.b > x
    [] OTHER -> FALSE

Bounded(v) == -50000000 < v /\ v < 50000000 /\ v # NoneCode /\ v # ExcCode /\ v # BigCode
(* the shape of every clause: no exception; if a result is demanded it is "nothing" exactly when
   the specification says so, else a value satisfying valueOk (arguments are evaluated lazily) *)
Chk(v, demanded, expectNone, valueOk) ==
  /\ v # ExcCode
  /\ (demanded => IF expectNone THEN v = NoneCode ELSE Bounded(v) /\ valueOk)
SmallOperands(p, q) == Abs(p) <= 4096 /\ Abs(q) <= 4096    \* products stay far below 2^31

OkTruncationCheck(r, x, v) == Chk(v, TRUE, ~Rep(r.D, x), v = x)
OkFromInt(r, x, v) == Chk(v, TRUE, x >= r.n, v = x)
OkCeilDiv(r, x, v) == Chk(v, TRUE, x = 0,
                          IF SmallOperands(r.a, x) THEN Abs(v) <= Abs(r.a) /\ IsCeil(r.a, x, v) ELSE v = CeilQ(r.a, x))
OkCeilDivSigned(r, x, v) == Chk(v, x = 0 \/ Rep(r.S, CeilQ(r.a, x)), x = 0,
                                IF SmallOperands(r.a, x) THEN Abs(v) <= Abs(r.a) /\ IsCeil(r.a, x, v) ELSE v = CeilQ(r.a, x))
OkDiv(r, x, v) == Chk(v, x = 0 \/ Rep(r.D, TruncQ(r.a, x)), x = 0,
                      IF SmallOperands(r.a, x) THEN Abs(v) <= Abs(r.a) /\ IsTrunc(r.a, x, v) ELSE v = TruncQ(r.a, x))
OkMod(r, x, v) == Chk(v, TRUE, x = 0, v = r.a % x)
OkClamp(r, x, v) == Chk(v, TRUE, r.b > x, IsClamp(r.a, r.b, x, v))
OkDiff(r, x, v) == Chk(v, Rep(r.S, Diff(r.a, x)), FALSE,
                       v = Diff(r.a, x) \/ (~Signed(r.S) /\ Small(r.S) /\ v = DiffModular(ModTab[r.S], r.a, x)))
OkIsPow2(r, x, v) == Chk(v, TRUE, FALSE, v = B01(IsPow2(x)))
OkNextPow2(r, x, v) == Chk(v, Rep(r.S, NextPow2(x)), FALSE, IsNextPow2(x, v))
OkLog2(r, x, v) == Chk(v, x # 0, FALSE, IsLog2(x, v))
OkPow2(r, x, v) == Chk(v, x <= MaxExp /\ Rep(r.S, Pow2(x)), FALSE, v = Pow2(x))
OkBitTest(r, x, v) == Chk(v, TRUE, FALSE, v = B01(BitTest(r.a, x)))
(* interval_distance: a = first1, b = second1, c = first2, x = second2; only well-formed intervals *)
OkInterval(r, x, v) == Chk(v, r.a <= r.b /\ r.c <= x, FALSE, v = IntervalDistance(r.a, r.b, r.c, x))
(* value preserving conversions (see IntMath.Convert): demanded iff the value is representable in D *)
ConvFns == {"cast_size", "to_signed", "to_unsigned", "promote_int", "safe_numeric", "enum_to_int", "enum_to_underlying",
            "int_to_enum", "literal", "mask_c"}
OkConv(r, x, v) == Chk(v, Rep(r.D, x), FALSE, v = Convert(r.D, x))
(* cast::to_uint_ptr of &array[a] and &array[x]: equal exactly for the same element *)
OkUintPtr(r, x, v) == Chk(v, TRUE, FALSE, v = B01(r.a = x))

(* indices of the results of a row that the specification does not explain (dispatch once per row) *)
NarrowBad(r) ==
  LET I == 1..Len(r.rs) IN
  CASE r.f = "truncation_check" -> {i \in I : ~OkTruncationCheck(r, X(r, i), r.rs[i])}
    [] r.f = "from_int" -> {i \in I : ~OkFromInt(r, X(r, i), r.rs[i])}
    [] r.f = "ceil_div" -> {i \in I : ~OkCeilDiv(r, X(r, i), r.rs[i])}
    [] r.f = "ceil_div_signed" -> {i \in I : ~OkCeilDivSigned(r, X(r, i), r.rs[i])}
    [] r.f = "div" -> {i \in I : ~OkDiv(r, X(r, i), r.rs[i])}
    [] r.f = "mod" -> {i \in I : ~OkMod(r, X(r, i), r.rs[i])}
    [] r.f = "clamp" -> {i \in I : ~OkClamp(r, X(r, i), r.rs[i])}
    [] r.f = "diff" -> {i \in I : ~OkDiff(r, X(r, i), r.rs[i])}
    [] r.f = "is_power_of_2" -> {i \in I : ~OkIsPow2(r, X(r, i), r.rs[i])}
    [] r.f = "next_power_of_2" -> {i \in I : ~OkNextPow2(r, X(r, i), r.rs[i])}
    [] r.f = "log2" -> {i \in I : ~OkLog2(r, X(r, i), r.rs[i])}
    [] r.f \in {"power_of_2", "shifted_mask"} -> {i \in I : ~OkPow2(r, X(r, i), r.rs[i])}
    [] r.f = "bit_test" -> {i \in I : ~OkBitTest(r, X(r, i), r.rs[i])}
    [] r.f = "interval_distance" -> {i \in I : ~OkInterval(r, X(r, i), r.rs[i])}
    [] r.f \in ConvFns -> {i \in I : ~OkConv(r, X(r, i), r.rs[i])}
    [] r.f = "to_uint_ptr" -> {i \in I : ~OkUintPtr(r, X(r, i), r.rs[i])}

(* where the rejected input lies; part of the signature, so that one finding cannot hide another *)
NarrowRegion(r, x) ==
  CASE r.f = "ceil_div_signed" -> IF x < 0 THEN ":divisor<0" ELSE ""
    [] r.f = "from_int" -> IF Small(UnsignedOf(r.D)) /\ x > Max(UnsignedOf(r.D)) THEN ":arg>size_type_max" ELSE ""
    [] r.f = "truncation_check" -> IF ~Signed(r.S) /\ Signed(r.D) /\ Bits(r.D) > Bits(r.S) THEN ":unsigned-to-wider-signed" ELSE ""
    [] r.f = "diff" -> IF ~Signed(r.S) /\ Bits(r.S) < 32 THEN ":unsigned-below-int" ELSE ""
    [] r.f = "interval_distance" -> IF TouchesInside(r.a, r.b, r.c, x) THEN ":touching-inside" ELSE ""
    [] OTHER -> ""
NarrowClass(r, x, v) ==
  (IF v = ExcCode THEN "exception"
   ELSE IF v = NoneCode THEN "unexpected-nothing"
   ELSE IF NarrowExpectNone(r, x) THEN "unexpected-value"
   ELSE "wrong-value") \o NarrowRegion(r, x)

NarrowKnown(r) == r.f \in {"truncation_check", "from_int", "ceil_div", "ceil_div_signed", "div", "mod", "clamp", "diff",
                           "is_power_of_2", "next_power_of_2", "log2", "power_of_2", "shifted_mask", "bit_test",
                           "interval_distance", "to_uint_ptr"} \cup ConvFns
NarrowReasons(r) ==
  IF ~NarrowKnown(r) THEN {"unknown-function"}
  ELSE {NarrowClass(r, X(r, i), r.rs[i]) : i \in NarrowBad(r)}
NarrowAt(r) ==
  LET bd == NarrowBad(r) IN
  IF bd = {} THEN <<>>
  ELSE LET i == CHOOSE j \in bd : \A k \in bd : j <= k IN <<X(r, i), r.rs[i], Cardinality(bd)>>

\* ------------------------------------------------------------------ wide records
IsMinOverMinusOne(ty, x, y) == Signed(ty) /\ x = MinZ(ty) /\ y = NegZ(One)
WideDemanded(r) ==
  CASE r.f \in {"ceil_div_signed", "div"} -> r.b.s = 0 \/ ~IsMinOverMinusOne(r.S, r.a, r.b)
    [] r.f = "diff" -> RepZ(r.S, WDiff(r.a, r.b))
    [] r.f = "next_power_of_2" -> RepZ(r.S, WNextPow2(r.a))
    [] r.f = "log2" -> r.a.s # 0
    [] r.f \in {"power_of_2", "shifted_mask"} -> r.e <= 64 /\ RepZ(r.S, WPow2(r.e))
    [] r.f \in ConvFns -> RepZ(r.D, r.a)
    [] OTHER -> TRUE
WideExpectNone(r) ==
  CASE r.f = "truncation_check" -> ~RepZ(r.D, r.a)
    [] r.f = "from_int" -> ~LtZ(r.a, ZOfInt(r.n))
    [] r.f \in {"ceil_div", "ceil_div_signed", "div", "mod"} -> r.b.s = 0
    [] r.f = "clamp" -> LtZ(r.c, r.b)          \* a = value, b = min, c = max
    [] OTHER -> FALSE
WideBoolFns == {"is_power_of_2", "bit_test"}
WideOptFns == {"truncation_check", "from_int", "ceil_div", "ceil_div_signed", "div", "mod", "clamp"}
WideValFns == {"diff", "next_power_of_2", "log2", "power_of_2", "shifted_mask"} \cup ConvFns
WellFormedZ(z) == DOMAIN z = {"s", "m"} /\ IsZ(z)
WideOk(r) ==
  IF r.ex = 1 THEN FALSE
  ELSE IF ~WideDemanded(r) THEN TRUE
  ELSE IF r.f \in WideBoolFns
  THEN r.r = (IF r.f = "is_power_of_2" THEN WIsPow2(r.a) ELSE WBitTest(r.a, r.b))
  ELSE IF r.f \in WideOptFns /\ WideExpectNone(r) THEN r.r = <<>>
  ELSE /\ Len(r.r) = 1 /\ WellFormedZ(r.r[1])
       /\ LET v == r.r[1] IN
          CASE r.f = "truncation_check" -> v = r.a
            [] r.f = "from_int" -> v = r.a
            [] r.f \in {"ceil_div", "ceil_div_signed"} -> WIsCeil(r.a, r.b, v)
            [] r.f = "div" -> WIsTrunc(r.a, r.b, v)
            [] r.f = "mod" -> <<v>> = WMod(r.a, r.b)
            [] r.f = "clamp" -> <<v>> = WClamp(r.a, r.b, r.c)
            [] r.f = "diff" -> v = WDiff(r.a, r.b) \/ (~Signed(r.S) /\ v = WDiffModular(Bits(r.S), r.a, r.b))
            [] r.f = "next_power_of_2" -> v = WNextPow2(r.a)
            [] r.f = "log2" -> Len(v.m) <= 1 /\ v.s >= 0 /\ WIsLog2(r.a, IntOfZ(v))
            [] r.f \in {"power_of_2", "shifted_mask"} -> v = WPow2(r.e)
            [] r.f \in ConvFns -> v = r.a
WideRegion(r) ==
  CASE r.f = "ceil_div_signed" -> IF r.b.s < 0 THEN ":divisor<0" ELSE ""
    [] r.f = "from_int" -> IF ~RepZ(UnsignedOf(r.D), r.a) THEN ":arg>size_type_max" ELSE ""
    [] r.f = "truncation_check" -> IF ~Signed(r.S) /\ Signed(r.D) /\ Bits(r.D) > Bits(r.S) THEN ":unsigned-to-wider-signed" ELSE ""
    [] OTHER -> ""
WideClass(r) ==
  (IF r.ex = 1 THEN "exception"
   ELSE IF r.f \in WideOptFns /\ r.r = <<>> THEN "unexpected-nothing"
   ELSE IF r.f \in WideOptFns /\ WideExpectNone(r) THEN "unexpected-value"
   ELSE "wrong-value") \o WideRegion(r)
WideKnown(r) == r.f \in WideBoolFns \cup WideOptFns \cup WideValFns
WideReasons(r) ==
  IF ~WideKnown(r) THEN {"unknown-function"}
  ELSE IF ~(WellFormedZ(r.a) /\ WellFormedZ(r.b) /\ WellFormedZ(r.c)) THEN {"HARNESS-MALFORMED-NUMBER"}
  ELSE IF WideOk(r) THEN {} ELSE {WideClass(r)}

\* ------------------------------------------------------------------ the judge
C06Reasons(r) == IF r.w = 0 THEN NarrowReasons(r) ELSE WideReasons(r)
C06At(r) == IF r.w = 0 THEN NarrowAt(r) ELSE <<>>

(* in_scope: a rejected record is a VIOLATION of C06 only if the statement of C06 names the function:
     "cast::truncation_check returns the converted value exactly when the source value is representable
      in the destination type and nothing otherwise; enum_::from_int returns an enumerator exactly when
      the integer is below the enum's size; math::ceil_div, ceil_div_signed, div, mod, clamp, diff,
      is_power_of_2, next_power_of_2, log2, power_of_2 and the bit mask helpers [bit::shifted_mask,
      bit::mask_c, bit::test] return the exact mathematical result whenever it is representable and an
      empty optional for a zero divisor or an empty interval."
   Every other record kind (interval_distance, the conversions of ConvFns except mask_c, to_uint_ptr) is
   judged and counted, but a disagreement is only an OBSERVATION (evidence coverage.observations). *)
C06InScopeFns == {"truncation_check", "from_int", "ceil_div", "ceil_div_signed", "div", "mod", "clamp", "diff",
                  "is_power_of_2", "next_power_of_2", "log2", "power_of_2", "shifted_mask", "mask_c", "bit_test"}
C06InScope(r) == r.f \in C06InScopeFns

(* RecordLoop's step, keeping one rejected record per distinct (function, reasons) so that a
   finding with thousands of rejected rows cannot crowd out a different one; all are counted.
   inscope = the reasons that may become a VIOLATION (the others are observations). *)
JNext ==
  /\ l <= Len(T)
  /\ l' = l + 1
  /\ LET w == Reasons(T[l]) IN
     IF w = {} THEN UNCHANGED <<bad, nbad>>
     ELSE /\ nbad' = nbad + 1
          /\ bad' = IF \E i \in 1..Len(bad) : bad[i].op = T[l].f /\ bad[i].why = w
                    THEN bad
                    ELSE Append(bad, [l |-> l, op |-> T[l].f, why |-> w, at |-> C06At(T[l]),
                                      inscope |-> IF C06InScope(T[l]) THEN w ELSE {}])
JSpec == RLInit /\ [][JNext]_rlvars
=============================================================================
