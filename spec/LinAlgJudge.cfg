SPECIFICATION RLSpec
CONSTANT Reasons <- LinAlgReasonsScoped
INVARIANT RLVerdict
CONSTRAINT RLConsumed
POSTCONDITION RLPost
CHECK_DEADLOCK FALSE
