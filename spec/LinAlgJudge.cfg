SPECIFICATION RLSpec
CONSTANT Reasons <- LinAlgReasons
INVARIANT RLVerdict
CONSTRAINT RLConsumed
POSTCONDITION RLPost
CHECK_DEADLOCK FALSE
