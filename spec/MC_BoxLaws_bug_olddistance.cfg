SPECIFICATION Spec
CONSTANTS
  N = 1
  Rad = 3
  Bug = 0
  OldDistance = TRUE
CHECK_DEADLOCK FALSE
INVARIANTS DistanceDocLaw
