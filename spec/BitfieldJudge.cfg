SPECIFICATION RLSpec
CONSTANT Reasons <- BFReasons
INVARIANT RLVerdict
CONSTRAINT RLConsumed
POSTCONDITION RLPost
CHECK_DEADLOCK FALSE
