------------------------------ MODULE IntIter ------------------------------
(* fcppt::int_range<Int> / fcppt::int_iterator<Int> as a state machine over a
   fixed-width integer type T, transcribed from int_range_impl.hpp
   (constructor: end_ = end < begin ? begin : end; begin() = begin_,
   end() = end_; size() = static_cast<size_type>(end_ - begin_)) and
   int_iterator_impl.hpp (++value_, equality of values).

   One behaviour per (b, e): the iterator walks from begin() to end();
   k counts the elements dereferenced so far.

   Invariants (MC_IntIter*.cfg):
     InType     the iterator value never leaves the type (no overflow)
     Prefix     the k elements visited so far are IntRange(b,e)[1..k], the
                current one (if any) is the next one
     AtEnd      on reaching end() exactly IntRange(b,e) was enumerated
     SizeLaw    size() = Count(b,e) whenever Count fits the type
     RangeLaw   IntRange(b,e) is the increasing enumeration of {x : b <= x < e}
   deadlock checking on: the walk can only stop at end().

   ClampBug = TRUE drops the clamping of an inverted range (vacuity guard).
   SizeBug  = TRUE computes size() from the unclamped end.
   DefBug   = TRUE swaps the reference sequence for the closed range. *)
EXTENDS Ranges

CONSTANTS T, Dom, ClampBug, SizeBug, DefBug

VARIABLES b, e, cur, k
vars == <<b, e, cur, k>>

(* static_cast to the type: wrap around modulo 2^w *)
Width == TypeMax(T) - TypeMin(T) + 1
Wrap(x) == ((x - TypeMin(T)) % Width) + TypeMin(T)

EndOf(bb, ee) == IF ee < bb /\ ~ClampBug THEN bb ELSE ee
SizeOf(bb, ee) == Wrap((IF SizeBug THEN ee ELSE EndOf(bb, ee)) - bb)

Init == b \in Dom /\ e \in Dom /\ cur = b /\ k = 0
AtEndIt == cur = EndOf(b, e)
Step == /\ ~AtEndIt
        /\ cur' = Wrap(cur + 1)      \* ++value_ (wraps for unsigned; signed overflow is excluded by InType)
        /\ k' = k + 1
        /\ UNCHANGED <<b, e>>
Done == AtEndIt /\ UNCHANGED vars
Spec == Init /\ [][Step \/ Done]_vars

R == IF DefBug THEN IntRange(b, e + 1) ELSE IntRange(b, e)   \* DefBug: a closed range (guard of RangeLaw)
InType == cur \in TypeVals(T) /\ (~AtEndIt => cur < TypeMax(T))   \* a ++ at the maximum would overflow
(* Len(R) = Count(b,e) is part of RangeLaw (checked in the initial state of every behaviour) *)
Prefix == /\ k <= Count(b, e)
          /\ cur = b + k
          /\ (~AtEndIt => k < Count(b, e) /\ R[k + 1] = cur)
AtEnd == AtEndIt => k = Count(b, e)
SizeLaw == SizeOk(T, b, e, SizeOf(b, e))
RangeLaw == k = 0 =>
            /\ SeqSet(R) = {x \in TypeVals(T) : b <= x /\ x < e}
            /\ \A i \in 1..(Len(R) - 1) : R[i + 1] = R[i] + 1
            /\ Len(R) = Count(b, e)
            /\ (e <= b => R = <<>>)

(* quick tier: every (b, e) of the type, laws and the first step only *)
Shallow == k = 0

(* input domains of the configurations *)
DomFull == TypeVals(T)
DomEdge == (TypeMin(T)..(TypeMin(T) + 8)) \cup (-4..4) \cup ((TypeMax(T) - 8)..TypeMax(T)) \cup (TypeMax(T) \div 2 - 2..TypeMax(T) \div 2 + 2)
DomEdgeT == DomEdge \cap TypeVals(T)
=============================================================================
