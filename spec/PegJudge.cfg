SPECIFICATION RLSpec
CONSTANTS
  Bug = "none"
  Reasons <- PegReasons
INVARIANT RLVerdict
CONSTRAINT RLConsumed
POSTCONDITION RLPost
CHECK_DEADLOCK FALSE
