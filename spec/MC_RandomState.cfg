SPECIFICATION Spec
CONSTANTS
  SR = 3
  SL = 5
  MaxResets = 2
  MaxCopies = 1
  Bug = "none"
INVARIANTS LawTransparentH LawResetFresh LawResetClears LawCursorH
PROPERTY LawCopyKeeps
CHECK_DEADLOCK FALSE
