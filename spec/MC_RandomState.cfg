SPECIFICATION Spec
CONSTANTS
  SR = 3
  SL = 5
  MaxResets = 2
  Bug = "none"
INVARIANTS LawTransparentH LawResetFresh LawResetClears LawCursorH
CHECK_DEADLOCK FALSE
