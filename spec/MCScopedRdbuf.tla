---------------------------- MODULE MCScopedRdbuf ----------------------------
(* Model check of io::scoped_rdbuf (IoStream.tla): NB buffers besides the stream's own one,
   every well-nested sequence of up to MaxOps operations open(b) / close / write(c). *)
EXTENDS IoStream, TLC

CONSTANTS NB, MaxOps, Bug

VARIABLES rb, hist    \* hist: <<op, current buffer before>>
vars == <<rb, hist>>

Close(r) ==
  CASE Bug = "close_restores_original" -> [r EXCEPT !.cur = 0, !.stack = SubSeq(@, 1, Len(@) - 1)]
    [] Bug = "close_keeps_buffer" -> [r EXCEPT !.stack = SubSeq(@, 1, Len(@) - 1)]
    [] OTHER -> RdClose(r)

Init == rb = RdInit(NB) /\ hist = <<>>

Open == \E b \in 1..NB : /\ Len(hist) < MaxOps /\ rb' = RdOpen(rb, b) /\ hist' = Append(hist, <<<<"open", b>>, rb.cur>>)
CloseA == /\ Len(hist) < MaxOps /\ rb.stack # <<>> /\ rb' = Close(rb) /\ hist' = Append(hist, <<<<"close">>, rb.cur>>)
Write == \E c \in {120, 121} : /\ Len(hist) < MaxOps /\ rb' = RdWrite(rb, c) /\ hist' = Append(hist, <<<<"write", c>>, rb.cur>>)
Next == Open \/ CloseA \/ Write
Spec == Init /\ [][Next]_vars

Depth == Len(rb.stack)

\* "temporarily": when every scope has ended the stream has its own buffer back
LawRestored == Depth = 0 => rb.cur = 0

\* the buffers installed by the scopes that are still open, innermost last
OpenBuffers ==
  LET RECURSIVE F(_, _)
      F(i, s) == IF i > Len(hist) THEN s
                 ELSE IF hist[i][1][1] = "open" THEN F(i + 1, Append(s, hist[i][1][2]))
                 ELSE IF hist[i][1][1] = "close" THEN F(i + 1, SubSeq(s, 1, Len(s) - 1))
                 ELSE F(i + 1, s)
  IN F(1, <<>>)

\* the current buffer is the one of the innermost open scope
LawNesting == rb.cur = (IF OpenBuffers = <<>> THEN 0 ELSE OpenBuffers[Len(OpenBuffers)])

\* every character went to the buffer that was current when it was written, in order
LawWrites ==
  \A b \in 0..NB :
    rb.bufs[b] = LET w == SelectSeq(hist, LAMBDA e : e[1][1] = "write" /\ e[2] = b) IN [i \in 1..Len(w) |-> w[i][1][2]]

LawRunAgrees == Bug = "none" => RdRun(NB, [i \in 1..Len(hist) |-> hist[i][1]]).rb = rb
=============================================================================
