SPECIFICATION Spec
CONSTANTS
  N = 3
  MaxE = 3
  MaxC = 3
  StrideBug = FALSE
  LawBug = 0
INVARIANTS OffsetLaw StorageLaw RangeLaw AtLaw ClampLaw ResizeLaw
