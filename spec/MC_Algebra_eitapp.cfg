SPECIFICATION Spec
CONSTANTS
  N = 3
  Bug = "none"
  Group = "eitapp"
  MaxLen = 0
INVARIANTS TypeOK LawEitApplyIsBindMap
