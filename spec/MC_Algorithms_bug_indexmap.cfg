SPECIFICATION SpecSeq
CONSTANTS
  MaxLen = 4
  SetMax = 3
  IndexMapGrow <- IndexMapGrowRefill
INVARIANT IndexMapLaws
