SPECIFICATION Spec
CONSTANTS
  Base = 16
  L = 2
  Bug = "none"
  Families = {"u"}
INVARIANTS UnsignedLaw SignedLaw
CHECK_DEADLOCK FALSE
