SPECIFICATION RSpec
CONSTANTS
  NL = 1
  NE = 2
  AbsBug = "none"
  BugAssignEmpty = FALSE
  BugMoveUnlinked = FALSE
  BugDtorOneSided = TRUE
  BugMoveNoReset = FALSE
  BugListMoveCtor = FALSE
  WithIter = FALSE
VIEW RView
INVARIANTS WalkAgree
CHECK_DEADLOCK FALSE
