SPECIFICATION SpecTriples
CONSTANTS
  PairVals <- Vm1to1
  TripleVals <- V0to1
  TripleValsC <- V0to1
  CubeVals <- V0to1
  CubeVals23 <- V0to1
  MAdd <- MAddAsSub
INVARIANT Distributivity
CHECK_DEADLOCK FALSE
