SPECIFICATION Spec
CONSTANTS
  Names <- NamesAB
  MaxDepth = 2
  SetLevels = {1, 3, 6}
  RootLevels = {2, 6}
  Objs = {1}
  MaxSets = 3
  MaxOps = 20
  GenObservers = FALSE
  SetNodeOnlyBug = TRUE
  InheritRootBug = FALSE
VIEW View
INVARIANTS LatestPrefixWins
CHECK_DEADLOCK FALSE
