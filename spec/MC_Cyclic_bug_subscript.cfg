SPECIFICATION Spec
CONSTANTS
  MaxLen = 6
  MaxN = 20
  NoFixBug = TRUE
  StepBug = FALSE
INVARIANTS SubscriptLaw
