--------------------------- MODULE TreeIter ---------------------------
(* The traversal iterators of fcppt.container.tree as state machines (C09, extension round).

   pre_order<Tree>::iterator (pre_order.hpp): "Internally, this class manages a stack, losely
   imitating the runtime stack in a recursive implementation."  State: current_ (optional
   reference to a node) and positions_ (a stack of node references).  increment():
       if the current node has children: push the children from the last down to the SECOND
       (rbegin() .. prev(rend())) and go to the first child;
       else if the stack is empty: current_ = nothing (the end iterator);
       else current_ = top of the stack, pop.
   equal(): compares current_ only.   begin() = iterator(tree), end() = iterator(nothing):
   "Return a dummy iterator to stop the traversal".
   to_root<Tree>::iterator (to_root.hpp): current_; increment(): current_ = parent();
   equal(): compares current_.
   Both declare std::forward_iterator_tag.

   A node is named by its path (Tree.tla); None marks the empty optional.  TLC enumerates
   every tree shape with up to MaxNodes nodes as initial states, runs two iterators of each
   kind independently and checks that the transcription visits exactly the reference
   sequence (PathsOf / ToRoot), that it == end() holds exactly after the last node, and that
   two iterators of one traversal are equal iff they are at the same position.
   PushFirstBug (push ALL children, i.e. rend() instead of prev(rend())) and ParentSkipBug
   (to_root increments to the grandparent) are the vacuity guards. *)
EXTENDS Tree

CONSTANTS PushFirstBug, ParentSkipBug

VARIABLES t,       \* the tree being traversed
          p,       \* the node the to_root traversals start from
          a, b,    \* two pre_order iterators  [cur, stack, k]   (k = number of increments, ghost)
          ra, rb   \* two to_root iterators    [cur, k]
itvars == <<st, hist, t, p, a, b, ra, rb>>

None == <<-1>>

(* all trees with exactly n nodes *)
RECURSIVE TreesOfSize(_)
RECURSIVE KidSeqs(_)
TreesOfSize(n) == {[v |-> x, k |-> ks] : x \in Val, ks \in KidSeqs(n - 1)}
KidSeqs(m) ==
  IF m = 0 THEN {<<>>}
  ELSE UNION {{<<h>> \o r : h \in TreesOfSize(j), r \in KidSeqs(m - j)} : j \in 1..m}
AllTrees == UNION {TreesOfSize(n) : n \in 1..MaxNodes}

(* ---- pre_order ---- *)
PBegin == [cur |-> <<>>, stack |-> <<>>, k |-> 0]
PEnd == [cur |-> None, stack |-> <<>>, k |-> 0]
PEqual(x, y) == x.cur = y.cur
PIncrement(x) ==
  LET nk == Len(Sub(t, x.cur).k)
      lo == IF PushFirstBug THEN 0 ELSE 1
      \* children nk-1, nk-2, ..., lo are pushed in this order: the top of the stack is child lo
      pushed == [i \in 1..(nk - lo) |-> Append(x.cur, nk - i)]
  IN IF nk > 0
     THEN [cur |-> Append(x.cur, 0), stack |-> x.stack \o pushed, k |-> x.k + 1]
     ELSE IF x.stack = <<>>
     THEN [cur |-> None, stack |-> <<>>, k |-> x.k + 1]
     ELSE [cur |-> x.stack[Len(x.stack)], stack |-> Front(x.stack), k |-> x.k + 1]

(* ---- to_root ---- *)
REqual(x, y) == x.cur = y.cur
RIncrement(x) ==
  LET up(q) == IF q = <<>> THEN None ELSE Front(q)
      one == up(x.cur)
  IN [cur |-> IF ParentSkipBug /\ one # None THEN up(one) ELSE one, k |-> x.k + 1]

ItInit ==
  /\ st = EmptyForest /\ hist = <<>>
  /\ t \in AllTrees
  /\ p \in Range(PathsOf(t))
  /\ a = PBegin /\ b = PBegin
  /\ ra = [cur |-> p, k |-> 0] /\ rb = [cur |-> p, k |-> 0]

ItNext ==
  /\ UNCHANGED <<st, hist, t, p>>
  /\ \/ a.cur # None /\ a' = PIncrement(a) /\ UNCHANGED <<b, ra, rb>>
     \/ b.cur # None /\ b' = PIncrement(b) /\ UNCHANGED <<a, ra, rb>>
     \/ ra.cur # None /\ ra' = RIncrement(ra) /\ UNCHANGED <<a, b, rb>>
     \/ rb.cur # None /\ rb' = RIncrement(rb) /\ UNCHANGED <<a, b, ra>>

ItSpec == ItInit /\ [][ItNext]_itvars

(* ---- what TLC checks ---- *)
(* after k increments the iterator is at the k-th node of the reference pre-order, then at end *)
PAt(x) == x.cur = (IF x.k < Size(t) THEN PathsOf(t)[x.k + 1] ELSE None)
PreOrderVisits == PAt(a) /\ PAt(b)
(* the stack holds the unvisited right siblings of the nodes on the way to the root,
   outermost first - nothing else *)
PendingOf(q) ==   \* for the current node q: right siblings of every prefix, outermost ancestor last popped
  LET sibs(j) == LET par == SubSeq(q, 1, j - 1)
                     n == Len(Sub(t, par).k)
                 IN [i \in 1..(n - 1 - q[j]) |-> Append(par, n - i)]
      RECURSIVE cat(_)
      cat(j) == IF j > Len(q) THEN <<>> ELSE sibs(j) \o cat(j + 1)
  IN cat(1)
StackIsPending == \A x \in {a, b} : x.cur # None => x.stack = PendingOf(x.cur)
PEndIsAfterLast == \A x \in {a, b} : PEqual(x, PEnd) <=> x.k = Size(t)
PEqualIsPosition == (PEqual(a, b) <=> a.k = b.k) /\ (PEqual(a, PBegin) <=> a.k = 0)
RAt(x) == x.cur = (IF x.k <= Level(p) THEN ToRoot(p)[x.k + 1] ELSE None)
ToRootVisits == RAt(ra) /\ RAt(rb)
REqualIsPosition == (REqual(ra, rb) <=> ra.k = rb.k) /\ (ra.cur = None <=> ra.k = Level(p) + 1)
=============================================================================
