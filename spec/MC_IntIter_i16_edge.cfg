SPECIFICATION Spec
CONSTANTS
  T = "i16"
  Dom <- DomEdgeT
  ClampBug = FALSE
  SizeBug = FALSE
INVARIANTS InType Prefix AtEnd SizeLaw RangeLaw
