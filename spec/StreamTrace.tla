--------------------------- MODULE StreamTrace ---------------------------
(* Judge for C12: every line of the ndjson log recorded from the real
   fcppt::parse::detail::stream<Ch> (harness/c12_stream.cpp) is one history
   {"f":"hist","ch":..,"text":[..],"ev":[event, ...]} or one entry-point call
   {"f":"entry",...}.  One TLC state per line.  A history is folded event by event
   through the operators of the abstract specification ParseStream (state = offset,
   bad flag, sequence of offsets whose positions were handed out); the first event the
   specification cannot explain is reported with its index, the call and the reasons,
   and the rest of that history is not judged (its state is no longer known).

   Event encoding: see ParseStream.tla. *)
EXTENDS ParseStream, IOUtils

VARIABLES l, bad, nbad
tvars == <<l, bad, nbad, text, st, hist>>

T == ndJsonDeserialize(IOEnv.TRACE)

OpName(ev) ==
  CASE ev[1] = 1 -> "get_char" [] ev[1] = 2 -> "get_position" [] ev[1] = 3 -> "set_position"
    [] ev[1] = 4 -> "set_bad" [] ev[1] = 5 -> "literal" [] ev[1] = 6 -> "char_set"
    [] ev[1] = 7 -> "position_equal" [] ev[1] = 8 -> "location_output" [] ev[1] = 9 -> "get_char_error"
    [] ev[1] = 10 -> "string" [] OTHER -> "unknown"

(* Scope (docs/EXTENSION_BRIEF.md, clarification): an inexplicable event is a VIOLATION of C12 only if
   the STATEMENT of C12 covers it; everything else is an observation.
   - stream kind 0 (std::basic_istringstream), calls get_char / get_position / set_position / badbit /
     literal / char_set: "For every input text and every interleaving of reading characters and restoring
     previously obtained positions, the stream's position denotes the offset of the next unread character
     together with line ... and column ..., and restoring a saved position makes all subsequent reads and
     positions identical ... Error messages of the character-level parsers carry the location immediately
     after the offending character, and end of input or a failing underlying stream yields a failure,
     never a character."  (quantifier: "all sequences of get_char / get_position / set_position(saved)
     operations, for char and wchar_t streams")
   - stream kind 3 (a stream buffer that fails at an offset): only the clause "a failing underlying
     stream yields a failure, never a character".
   - everything else added in the extension round (std::basic_stringstream, the non-seekable buffer,
     position equality, location output, get_char_error's "EOF", the string parser) is OBSERVED ONLY. *)
NeverACharacter == {"character-from-bad-stream", "character-from-failing-stream", "success-on-bad-stream",
                    "success-on-failing-stream"}
InScope(skind, ev, why) ==
  \/ skind = 0 /\ ev[1] \in 1..6
  \/ skind = 3 /\ ev[1] \in {1, 5, 6} /\ why \cap NeverACharacter # {}

WellFormed(ev, nsaved) ==
  /\ Len(ev) >= 1
  /\ CASE ev[1] = 1 -> Len(ev) = 2
       [] ev[1] = 2 -> (Len(ev) = 2 /\ ev[2] = -2) \/ (Len(ev) = 5 /\ ev[2] = nsaved)
       [] ev[1] = 3 -> Len(ev) = 3 /\ ev[2] \in 0..(nsaved - 1) /\ ev[3] \in {0, -2}
       [] ev[1] = 4 -> Len(ev) = 1
       [] ev[1] = 5 -> Len(ev) = 5 /\ ev[3] \in {1, 0, -1, -2}
       [] ev[1] = 6 -> Len(ev) = 6 /\ ev[3] \in {1, 0, -1, -2}
       [] ev[1] = 7 -> Len(ev) = 4 /\ ev[2] \in 0..(nsaved - 1) /\ ev[3] \in 0..(nsaved - 1) /\ ev[4] \in {0, 1}
       [] ev[1] = 8 -> Len(ev) = 4 /\ ev[2] \in 0..(nsaved - 1)
       [] ev[1] = 9 -> Len(ev) = 2
       [] ev[1] = 10 -> Len(ev) = 5 /\ ev[3] \in {1, 0, -1, -2}
       [] OTHER -> FALSE

(* reasons why event ev is not explained in state s = [off, bad, failat, noseek, unk], saved = <<offsets>> *)
CharParserWhy(tx, s, accepts(_), res, line, col, ch) ==
  LET m == ModelCharParser(tx, s, accepts) IN
  IF ExplainsCharParser(tx, s, accepts, res, line, col, ch) THEN {}
  ELSE IF s.bad THEN {"success-on-bad-stream"}
  ELSE IF Hits(s) THEN {"success-on-failing-stream"}
  ELSE IF res = -2 THEN (IF s.noseek /\ m.res = 0 THEN {} ELSE {"exception"})   \* no position on a non-seekable stream
  ELSE IF AtEnd(tx, s.off) THEN {"success-at-end-of-input"}
  ELSE IF m.res = 1 THEN (IF res # 1 THEN {"failure-on-accepted-character"} ELSE {"wrong-character"})
  ELSE IF res = 1 THEN {"success-on-rejected-character"}
  ELSE IF res = -1 THEN {"no-location-in-message"}
  ELSE {"location-not-after-offending-character"}

EvWhy(tx, s, saved, ev) ==
  IF ~WellFormed(ev, Len(saved)) THEN {"HARNESS-PRECONDITION"}
  ELSE IF s.unk /\ ev[1] \in {1, 2, 5, 6, 9, 10} THEN {}   \* offset unknown after a failed string parser: not judged
  ELSE CASE ev[1] = 1 ->
              IF ExplainsGetChar(tx, s, ev[2]) THEN {}
              ELSE IF s.bad THEN {"character-from-bad-stream"}
              ELSE IF Hits(s) THEN {"character-from-failing-stream"}
              ELSE IF ev[2] = -2 THEN {"exception"}
              ELSE IF AtEnd(tx, s.off) THEN {"character-at-end-of-input"}
              ELSE IF ev[2] = -1 THEN {"nothing-before-end-of-input"}
              ELSE {"wrong-character"}
         [] ev[1] = 2 ->
              IF ExplainsGetPosition(tx, s, ev) \/ (s.noseek /\ Len(ev) = 2) THEN {}
              ELSE IF Len(ev) = 2 THEN {"exception"}
              ELSE (IF ev[3] # s.off THEN {"offset"} ELSE {})
                   \cup (IF ev[4] # Line(tx, s.off) THEN {"line"} ELSE {})
                   \cup (IF ev[5] # Col(tx, s.off) THEN {"column"} ELSE {})
         [] ev[1] = 3 -> IF ExplainsSetPosition(s, ev) \/ s.noseek THEN {} ELSE {"exception"}
         [] ev[1] = 4 -> {}
         [] ev[1] = 5 -> CharParserWhy(tx, s, LAMBDA x : x = ev[2], ev[3], ev[4], ev[5], ev[2])
         [] ev[1] = 6 -> CharParserWhy(tx, s, LAMBDA x : InSeq(x, ev[2]), ev[3], ev[4], ev[5], ev[6])
         [] ev[1] = 7 -> IF ev[4] = ModelPosEq(saved[ev[2] + 1], saved[ev[3] + 1]) THEN {} ELSE {"equality"}
         [] ev[1] = 8 -> LET o == saved[ev[2] + 1] IN
                         IF ev[3] = Line(tx, o) /\ ev[4] = Col(tx, o) THEN {} ELSE {"not-line-colon-column"}
         [] ev[1] = 9 ->
              IF ExplainsGetCharError(tx, s, ev[2]) THEN {}
              ELSE IF s.bad \/ Hits(s) THEN {"character-from-failing-stream"}
              ELSE IF ev[2] = -3 /\ AtEnd(tx, s.off) THEN {"message-is-not-EOF"}
              ELSE IF ev[2] < 0 /\ ~AtEnd(tx, s.off) THEN {"failure-before-end-of-input"}
              ELSE IF ev[2] = -2 THEN {"exception"}
              ELSE {"wrong-character"}
         [] ev[1] = 10 ->
              IF s.bad THEN (IF ev[3] = 1 THEN {"success-on-bad-stream"} ELSE {})
              ELSE IF StringMatches(tx, s, ev[2]) THEN (IF ev[3] = 1 THEN {} ELSE {"failure-on-matching-input"})
              ELSE IF ev[3] = 1 THEN {"success-on-other-input"}
              ELSE IF ev[3] = -2 /\ s.failat < 0 THEN {"exception"}
              ELSE {}

(* state after an explained event *)
AfterRead(s, off) == [s EXCEPT !.off = off, !.bad = BadAfterRead(s)]
NextS(tx, s, saved, ev) ==
  IF s.unk /\ ev[1] \in {1, 2, 5, 6, 9, 10} THEN s
  ELSE CASE ev[1] \in {1, 9} -> AfterRead(s, OffAfterGetChar(tx, s, ev[2]))
    [] ev[1] = 3 -> IF s.bad \/ ev[3] # 0 THEN s ELSE [s EXCEPT !.off = saved[ev[2] + 1], !.unk = FALSE]
    [] ev[1] = 4 -> [s EXCEPT !.bad = TRUE]
    [] ev[1] = 5 -> IF s.bad THEN s ELSE AfterRead(s, ModelCharParser(tx, s, LAMBDA x : x = ev[2]).off)
    [] ev[1] = 6 -> IF s.bad THEN s ELSE AfterRead(s, ModelCharParser(tx, s, LAMBDA x : InSeq(x, ev[2])).off)
    [] ev[1] = 10 -> IF s.bad THEN s
                     ELSE IF ev[3] = 1 THEN [s EXCEPT !.off = s.off + Len(ev[2])]
                     ELSE [s EXCEPT !.unk = TRUE, !.bad = (s.failat >= 0)]   \* may have hit the failing offset
    [] OTHER -> s
(* while the offset is unknown a handed-out position is remembered with the offset it reports
   (a reported offset outside the text - garbage - is remembered as the end of the text: the judge must never
   index the text with it) *)
NextSaved(tx, s, saved, ev) ==
  IF ev[1] = 2 /\ Len(ev) = 5
  THEN Append(saved, IF s.unk \/ s.bad THEN (IF ev[3] \in 0..Len(tx) THEN ev[3] ELSE Len(tx)) ELSE s.off)
  ELSE saved

(* entries for one history: every observed-only disagreement of the pure observers (7, 8), and the first
   other inexplicable event, after which the state is no longer known *)
RECURSIVE RunHist(_, _, _, _, _, _, _)
RunHist(skind, tx, s, saved, evs, k, acc) ==
  IF k > Len(evs) THEN acc
  ELSE LET ev == evs[k]
           w == EvWhy(tx, s, saved, ev)
           e == [k |-> k, op |-> OpName(ev), why |-> w, scope |-> InScope(skind, ev, w) \/ "HARNESS-PRECONDITION" \in w]
       IN IF w # {} /\ ev[1] \notin {7, 8} THEN Append(acc, e)
          ELSE RunHist(skind, tx, NextS(tx, s, saved, ev), NextSaved(tx, s, saved, ev), evs, k + 1,
                       IF w # {} THEN Append(acc, e) ELSE acc)

(* phrase_parse_string(literal / char_set, tx, *char_set(space_set)):
   the skipper consumes the maximal prefix of ' ', '\n', '\t'; then one character parser; the
   string entry point succeeds iff the whole input was consumed *)
IsSpace(c) == c \in {32, 10, 9}
RECURSIVE SpacePrefix(_, _)
SpacePrefix(tx, k) == IF k < Len(tx) /\ IsSpace(tx[k + 1]) THEN SpacePrefix(tx, k + 1) ELSE k

EntryWhy(r) ==
  LET k == SpacePrefix(r.text, 0)
      acc(c) == IF r.kind = 5 THEN c = r.arg[1] ELSE InSeq(c, r.arg)
  IN \* the string entry point over a std::basic_istringstream: an exception (-2) is no documented outcome;
     \* -3: the call crashed / hung (the harness' crash handler completed the record)
     IF r.res = -2 THEN {"exception"}
     ELSE IF r.res = -3 THEN {"crash"}
     ELSE IF k = Len(r.text) THEN (IF r.res = 1 THEN {"success-at-end-of-input"} ELSE {})
     ELSE IF acc(r.text[k + 1])
          THEN (IF (r.res = 1) = (k + 1 = Len(r.text)) THEN {} ELSE {"success-iff-all-consumed"})
          ELSE IF r.res = 1 THEN {"success-on-rejected-character"}
          ELSE IF r.res = -1 THEN {"no-location-in-message"}
          ELSE IF r.line = Line(r.text, k + 1) /\ r.col = Col(r.text, k + 1) THEN {}
          ELSE {"location-not-after-offending-character"}

(* compact fixed-shape history (harness scan_record): read everything with a position before each
   character and after the last, read once more at the end, restore the k-th position, read
   everything again.  The expected observations are the documented positions of all offsets
   (from scratch) and the characters of the text. *)
ScanWhy(r) ==
  LET n == Len(r.text)
      L == [o \in 0..n |-> Line(r.text, o)]
      C == [o \in 0..n |-> Col(r.text, o)]
      Flat(a) == [i \in 1..(3 * (n - a + 1)) |->
                    LET o == a + ((i - 1) \div 3)
                        j == (i - 1) % 3
                    IN IF j = 0 THEN o ELSE IF j = 1 THEN L[o] ELSE C[o]]
      k == IF r.k <= n THEN r.k ELSE n
  IN IF r.exc # 0 THEN {"exception"}
     ELSE (IF r.p1 = Flat(0) THEN {} ELSE {"positions"})
          \cup (IF r.c1 = r.text \o <<-1, -1>> THEN {} ELSE {"characters"})
          \cup (IF r.p2 = Flat(k) THEN {} ELSE {"positions-after-rewind"})
          \cup (IF r.c2 = SubSeq(r.text, k + 1, n) \o <<-1>> THEN {} ELSE {"characters-after-rewind"})

(* very long lines / very many lines (harness longline_record): the text is pre \o fill^n and is never
   materialised; the documented position of an offset o behind the prefix follows from the position of
   the end of the prefix: a newline fill starts a new line with every character (column 1), any other fill
   advances the column ("line = 1 + number of newlines before the offset, column counted from the last
   newline").  at = the observed offsets (ascending), pos = their <<off, line, col>> flattened, chr = the
   character read there (-1 behind the end), k-th observed position restored after the end was reached. *)
LongPos(r, o) ==
  LET lp == Len(r.pre) IN
  IF o <= lp THEN <<o, Line(r.pre, o), Col(r.pre, o)>>
  ELSE IF r.fill = NL THEN <<o, Line(r.pre, lp) + (o - lp), 1>>
  ELSE <<o, Line(r.pre, lp), Col(r.pre, lp) + (o - lp)>>
LongChr(r, o) ==
  LET lp == Len(r.pre) IN IF o < lp THEN r.pre[o + 1] ELSE IF o < lp + r.n THEN r.fill ELSE -1
LongWhy(r) ==
  LET m == Len(r.at)
      k == IF r.k < m THEN r.k + 1 ELSE m
      Flat == [i \in 1..(3 * m) |-> LongPos(r, r.at[((i - 1) \div 3) + 1])[((i - 1) % 3) + 1]]
  IN IF m = 0 \/ \E i \in 1..m : r.at[i] > Len(r.pre) + r.n THEN {"HARNESS-PRECONDITION"}
     ELSE IF r.exc # 0 THEN {"exception"}
     ELSE (IF r.pos = Flat THEN {} ELSE {"positions"})
          \cup (IF r.chr = [i \in 1..m |-> LongChr(r, r.at[i])] THEN {} ELSE {"characters"})
          \cup (IF r.pos2 = LongPos(r, r.at[k]) THEN {} ELSE {"positions-after-rewind"})
          \cup (IF r.chr2 = LongChr(r, r.at[k]) THEN {} ELSE {"characters-after-rewind"})

One(op, why) == IF why = {} THEN <<>> ELSE <<[k |-> 0, op |-> op, why |-> why, scope |-> TRUE]>>
Judge(r) ==
  IF r.f = "hist"
  THEN RunHist(r.sk, r.text, [off |-> 0, bad |-> FALSE, failat |-> IF r.sk = 3 THEN r.fa ELSE -1, noseek |-> r.sk = 2,
                              unk |-> FALSE], <<>>, r.ev, 1, <<>>)
  \* scan and entry records (std::basic_istringstream): positions / rewinding / error location clauses
  ELSE IF r.f = "scan" THEN One("scan", ScanWhy(r))
  ELSE IF r.f = "longline" THEN One("scan", LongWhy(r))
  ELSE IF r.f = "entry" THEN One(IF r.kind = 5 THEN "entry_literal" ELSE "entry_char_set", EntryWhy(r))
  ELSE One("unknown", {"HARNESS-PRECONDITION"})

TInit == l = 1 /\ bad = <<>> /\ nbad = 0 /\ text = <<>> /\ st = [off |-> 0, bad |-> FALSE, saved |-> {}] /\ hist = <<>>
TNext ==
  /\ l <= Len(T)
  /\ l' = l + 1
  /\ UNCHANGED <<text, st, hist>>   \* the model's variables are not used by the judge
  /\ LET j == Judge(T[l]) IN
     IF j = <<>> THEN UNCHANGED <<bad, nbad>>
     ELSE /\ nbad' = nbad + Len(j)
          /\ bad' = IF nbad < 300
                     THEN bad \o [i \in 1..Len(j) |-> [l |-> l, op |-> j[i].op, why |-> j[i].why, k |-> j[i].k, scope |-> j[i].scope]]
                     ELSE bad
TSpec == TInit /\ [][TNext]_tvars

Verdict == (l = Len(T) + 1) => PrintT("VERDICT " \o ToJson([n |-> Len(T), nbad |-> nbad, bad |-> bad]))
Consumed == TLCSet(1, l)
Post == IF TLCGet(1) = Len(T) + 1 THEN TRUE ELSE PrintT("STUCK " \o ToString(TLCGet(1)))
=============================================================================
