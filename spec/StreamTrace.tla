--------------------------- MODULE StreamTrace ---------------------------
(* Judge for C12: every line of the ndjson log recorded from the real
   fcppt::parse::detail::stream<Ch> (harness/c12_stream.cpp) is one history
   {"f":"hist","ch":..,"text":[..],"ev":[event, ...]} or one entry-point call
   {"f":"entry",...}.  One TLC state per line.  A history is folded event by event
   through the operators of the abstract specification ParseStream (state = offset,
   bad flag, sequence of offsets whose positions were handed out); the first event the
   specification cannot explain is reported with its index, the call and the reasons,
   and the rest of that history is not judged (its state is no longer known).

   Event encoding: see ParseStream.tla. *)
EXTENDS ParseStream, IOUtils

VARIABLES l, bad, nbad
tvars == <<l, bad, nbad, text, st, hist>>

T == ndJsonDeserialize(IOEnv.TRACE)

OpName(ev) ==
  CASE ev[1] = 1 -> "get_char" [] ev[1] = 2 -> "get_position" [] ev[1] = 3 -> "set_position"
    [] ev[1] = 4 -> "set_bad" [] ev[1] = 5 -> "literal" [] ev[1] = 6 -> "char_set" [] OTHER -> "unknown"

WellFormed(ev, nsaved) ==
  /\ Len(ev) >= 1
  /\ CASE ev[1] = 1 -> Len(ev) = 2
       [] ev[1] = 2 -> (Len(ev) = 2 /\ ev[2] = -2) \/ (Len(ev) = 5 /\ ev[2] = nsaved)
       [] ev[1] = 3 -> Len(ev) = 3 /\ ev[2] \in 0..(nsaved - 1) /\ ev[3] \in {0, -2}
       [] ev[1] = 4 -> Len(ev) = 1
       [] ev[1] = 5 -> Len(ev) = 5 /\ ev[3] \in {1, 0, -1, -2}
       [] ev[1] = 6 -> Len(ev) = 6 /\ ev[3] \in {1, 0, -1, -2}
       [] OTHER -> FALSE

(* reasons why event ev is not explained in state s = [off, bad], saved = <<offsets>> *)
CharParserWhy(tx, s, accepts(_), res, line, col, ch) ==
  LET m == ModelCharParser(tx, s, accepts) IN
  IF ExplainsCharParser(tx, s, accepts, res, line, col, ch) THEN {}
  ELSE IF s.bad THEN {"success-on-bad-stream"}
  ELSE IF res = -2 THEN {"exception"}
  ELSE IF AtEnd(tx, s.off) THEN {"success-at-end-of-input"}
  ELSE IF m.res = 1 THEN (IF res # 1 THEN {"failure-on-accepted-character"} ELSE {"wrong-character"})
  ELSE IF res = 1 THEN {"success-on-rejected-character"}
  ELSE IF res = -1 THEN {"no-location-in-message"}
  ELSE {"location-not-after-offending-character"}

EvWhy(tx, s, saved, ev) ==
  IF ~WellFormed(ev, Len(saved)) THEN {"HARNESS-PRECONDITION"}
  ELSE CASE ev[1] = 1 ->
              IF ExplainsGetChar(tx, s, ev[2]) THEN {}
              ELSE IF s.bad THEN {"character-from-bad-stream"}
              ELSE IF ev[2] = -2 THEN {"exception"}
              ELSE IF AtEnd(tx, s.off) THEN {"character-at-end-of-input"}
              ELSE IF ev[2] = -1 THEN {"nothing-before-end-of-input"}
              ELSE {"wrong-character"}
         [] ev[1] = 2 ->
              IF ExplainsGetPosition(tx, s, ev) THEN {}
              ELSE IF Len(ev) = 2 THEN {"exception"}
              ELSE (IF ev[3] # s.off THEN {"offset"} ELSE {})
                   \cup (IF ev[4] # Line(tx, s.off) THEN {"line"} ELSE {})
                   \cup (IF ev[5] # Col(tx, s.off) THEN {"column"} ELSE {})
         [] ev[1] = 3 -> IF ExplainsSetPosition(s, ev) THEN {} ELSE {"exception"}
         [] ev[1] = 4 -> {}
         [] ev[1] = 5 -> CharParserWhy(tx, s, LAMBDA x : x = ev[2], ev[3], ev[4], ev[5], ev[2])
         [] ev[1] = 6 -> CharParserWhy(tx, s, LAMBDA x : InSeq(x, ev[2]), ev[3], ev[4], ev[5], ev[6])

(* state after an explained event *)
NextS(tx, s, saved, ev) ==
  CASE ev[1] = 1 -> [s EXCEPT !.off = OffAfterGetChar(tx, s, ev[2])]
    [] ev[1] = 3 -> IF s.bad THEN s ELSE [s EXCEPT !.off = saved[ev[2] + 1]]
    [] ev[1] = 4 -> [s EXCEPT !.bad = TRUE]
    [] ev[1] = 5 -> IF s.bad THEN s ELSE [s EXCEPT !.off = ModelCharParser(tx, s, LAMBDA x : x = ev[2]).off]
    [] ev[1] = 6 -> IF s.bad THEN s ELSE [s EXCEPT !.off = ModelCharParser(tx, s, LAMBDA x : InSeq(x, ev[2])).off]
    [] OTHER -> s
NextSaved(s, saved, ev) == IF ev[1] = 2 /\ Len(ev) = 5 THEN Append(saved, s.off) ELSE saved

RECURSIVE RunHist(_, _, _, _, _)
RunHist(tx, s, saved, evs, k) ==
  IF k > Len(evs) THEN [k |-> 0, op |-> "hist", why |-> {}]
  ELSE LET ev == evs[k]
           w == EvWhy(tx, s, saved, ev)
       IN IF w # {} THEN [k |-> k, op |-> OpName(ev), why |-> w]
          ELSE RunHist(tx, NextS(tx, s, saved, ev), NextSaved(s, saved, ev), evs, k + 1)

(* phrase_parse_string(literal / char_set, tx, *char_set(space_set)):
   the skipper consumes the maximal prefix of ' ', '\n', '\t'; then one character parser; the
   string entry point succeeds iff the whole input was consumed *)
IsSpace(c) == c \in {32, 10, 9}
RECURSIVE SpacePrefix(_, _)
SpacePrefix(tx, k) == IF k < Len(tx) /\ IsSpace(tx[k + 1]) THEN SpacePrefix(tx, k + 1) ELSE k

EntryWhy(r) ==
  LET k == SpacePrefix(r.text, 0)
      acc(c) == IF r.kind = 5 THEN c = r.arg[1] ELSE InSeq(c, r.arg)
  IN IF r.res = -2 THEN {"HARNESS-PRECONDITION"}
     ELSE IF k = Len(r.text) THEN (IF r.res = 1 THEN {"success-at-end-of-input"} ELSE {})
     ELSE IF acc(r.text[k + 1])
          THEN (IF (r.res = 1) = (k + 1 = Len(r.text)) THEN {} ELSE {"success-iff-all-consumed"})
          ELSE IF r.res = 1 THEN {"success-on-rejected-character"}
          ELSE IF r.res = -1 THEN {"no-location-in-message"}
          ELSE IF r.line = Line(r.text, k + 1) /\ r.col = Col(r.text, k + 1) THEN {}
          ELSE {"location-not-after-offending-character"}

(* compact fixed-shape history (harness scan_record): read everything with a position before each
   character and after the last, read once more at the end, restore the k-th position, read
   everything again.  The expected observations are the documented positions of all offsets
   (from scratch) and the characters of the text. *)
ScanWhy(r) ==
  LET n == Len(r.text)
      L == [o \in 0..n |-> Line(r.text, o)]
      C == [o \in 0..n |-> Col(r.text, o)]
      Flat(a) == [i \in 1..(3 * (n - a + 1)) |->
                    LET o == a + ((i - 1) \div 3)
                        j == (i - 1) % 3
                    IN IF j = 0 THEN o ELSE IF j = 1 THEN L[o] ELSE C[o]]
      k == IF r.k <= n THEN r.k ELSE n
  IN IF r.exc # 0 THEN {"exception"}
     ELSE (IF r.p1 = Flat(0) THEN {} ELSE {"positions"})
          \cup (IF r.c1 = r.text \o <<-1, -1>> THEN {} ELSE {"characters"})
          \cup (IF r.p2 = Flat(k) THEN {} ELSE {"positions-after-rewind"})
          \cup (IF r.c2 = SubSeq(r.text, k + 1, n) \o <<-1>> THEN {} ELSE {"characters-after-rewind"})

Judge(r) ==
  IF r.f = "hist" THEN RunHist(r.text, [off |-> 0, bad |-> FALSE], <<>>, r.ev, 1)
  ELSE IF r.f = "scan" THEN [k |-> 0, op |-> "scan", why |-> ScanWhy(r)]
  ELSE IF r.f = "entry" THEN [k |-> 0, op |-> IF r.kind = 5 THEN "entry_literal" ELSE "entry_char_set", why |-> EntryWhy(r)]
  ELSE [k |-> 0, op |-> "unknown", why |-> {"HARNESS-PRECONDITION"}]

TInit == l = 1 /\ bad = <<>> /\ nbad = 0 /\ text = <<>> /\ st = [off |-> 0, bad |-> FALSE, saved |-> {}] /\ hist = <<>>
TNext ==
  /\ l <= Len(T)
  /\ l' = l + 1
  /\ UNCHANGED <<text, st, hist>>   \* the model's variables are not used by the judge
  /\ LET j == Judge(T[l]) IN
     IF j.why = {} THEN UNCHANGED <<bad, nbad>>
     ELSE /\ nbad' = nbad + 1
          /\ bad' = IF nbad < 300 THEN Append(bad, [l |-> l, op |-> j.op, why |-> j.why, k |-> j.k]) ELSE bad
TSpec == TInit /\ [][TNext]_tvars

Verdict == (l = Len(T) + 1) => PrintT("VERDICT " \o ToJson([n |-> Len(T), nbad |-> nbad, bad |-> bad]))
Consumed == TLCSet(1, l)
Post == IF TLCGet(1) = Len(T) + 1 THEN TRUE ELSE PrintT("STUCK " \o ToString(TLCGet(1)))
=============================================================================
