SPECIFICATION Spec
CONSTANTS
  N = 2
  MaxE = 4
  MaxC = 5
  StrideBug = FALSE
  LawBug = 4
INVARIANTS ResizeLaw
