------------------------------ MODULE MC_LinAlg ------------------------------
(* Model check of LinAlg.tla itself: the bounded input space is the set of INITIAL STATES, the
   ring / module laws are invariants (theorems of the model).  *_bug configurations substitute
   a defective definition (the planned mutants of DESIGN.md section 7 and a few more) and TLC
   must find the counterexample: vacuity guards. *)
EXTENDS LinAlg, TLC

CONSTANTS PairVals,     \* entries of the 2x2 matrices in the pair space
          TripleVals,   \* entries of A and B in the triple space
          TripleValsC,  \* entries of C in the triple space
          CubeVals,     \* entries of the first row of the 3x3 matrices in the single-matrix space
          CubeVals23    \* entries of their second and third row

(* value sets (the cfg syntax has no negative literals) *)
Vm1to2 == -1..2
Vm1to1 == -1..1
V0to1 == 0..1
Vm1p1p2 == {-1, 1, 2}

VARIABLES A, B, C,
          ph            \* 0: only part of the case is chosen, 1: the case is complete
vars == <<A, B, C, ph>>

Mat(n, S) == [1..n -> [1..n -> S]]
Z2 == <<<<0, 0>>, <<0, 0>>>>
Z3 == <<0, 0, 0>>

(* The case space is enumerated in two steps (first operand in the initial state, the others by
   one transition) so that TLC's workers evaluate the laws in parallel; the laws are invariants
   and hold in the intermediate states as well (zero matrices are matrices). *)
InitPairs == A \in Mat(2, PairVals) /\ B = Z2 /\ C = Z2 /\ ph = 0
NextPairs == ph = 0 /\ ph' = 1 /\ B' \in Mat(2, PairVals) /\ UNCHANGED <<A, C>>
InitTriples == A \in Mat(2, TripleVals) /\ B = Z2 /\ C = Z2 /\ ph = 0
NextTriples == ph = 0 /\ ph' = 1 /\ B' \in Mat(2, TripleVals) /\ C' \in Mat(2, TripleValsC) /\ UNCHANGED A
InitCubes == (\E r \in [1..3 -> CubeVals] : A = <<r, Z3, Z3>>) /\ B = Z2 /\ C = Z2 /\ ph = 0
NextCubes == ph = 0 /\ ph' = 1 /\ UNCHANGED <<B, C>>
             /\ \E r2, r3 \in [1..3 -> CubeVals23] : A' = <<A[1], r2, r3>>
SpecPairs == InitPairs /\ [][NextPairs]_vars
SpecTriples == InitTriples /\ [][NextTriples]_vars
SpecCubes == InitCubes /\ [][NextCubes]_vars

----------------------------------------------------------------------------
(* laws over pairs *)
TransposeInvolution == Transpose(Transpose(A)) = A
TransposeProduct == Transpose(MMul(A, B)) = MMul(Transpose(B), Transpose(A))
DetMultiplicative == Det(MMul(A, B)) = Det(A) * Det(B)
AdjugateLaw ==
  /\ MMul(A, Adj(A)) = MScale(Det(A), Identity(Rows(A)))
  /\ MMul(Adj(A), A) = MScale(Det(A), Identity(Rows(A)))
AdditiveGroup ==
  /\ MAdd(A, B) = MAdd(B, A)
  /\ MSub(MAdd(A, B), B) = A
  /\ MAdd(A, MScale(-1, A)) = MScale(0, A)
  /\ Transpose(MAdd(A, B)) = MAdd(Transpose(A), Transpose(B))
IdentityLaw == MMul(A, Identity(Rows(A))) = A /\ MMul(Identity(Rows(A)), A) = A /\ Det(Identity(Rows(A))) = 1
(* module laws with the vectors given by the rows of B *)
ModuleLaws ==
  LET v == B[1]
      w == B[2]
  IN /\ MVec(MMul(A, B), v) = MVec(A, MVec(B, v))
     /\ MVec(A, VAdd(v, w)) = VAdd(MVec(A, v), MVec(A, w))
     /\ MVec(A, VScale(3, v)) = VScale(3, MVec(A, v))
     /\ Dot(v, w) = Dot(w, v) /\ LengthSquare(v) = Dot(v, v)
     /\ Dot(MVec(A, v), w) = Dot(v, MVec(Transpose(A), w))
     /\ VSub(VAdd(v, w), w) = v /\ VMul(v, w) = VMul(w, v)
     /\ ~(Less(v, w) /\ Less(w, v)) /\ (Less(v, w) \/ Less(w, v) \/ v = w)
     /\ NarrowCast(PushBack(v, 7), 2) = v
(* laws over triples *)
Associativity == MMul(MMul(A, B), C) = MMul(A, MMul(B, C))
Distributivity ==
  /\ MMul(A, MAdd(B, C)) = MAdd(MMul(A, B), MMul(A, C))
  /\ MMul(MAdd(A, B), C) = MAdd(MMul(A, C), MMul(B, C))
  /\ MAdd(MAdd(A, B), C) = MAdd(A, MAdd(B, C))
(* laws over single 3x3 matrices (Laplace recursion, signs, minors) *)
CubeLaws ==
  /\ MMul(A, Adj(A)) = MScale(Det(A), Identity(3))
  /\ Det(Transpose(A)) = Det(A)
  /\ Det(MMul(A, A)) = Det(A) * Det(A)
  /\ Det(A) = A[1][1] * (A[2][2] * A[3][3] - A[2][3] * A[3][2])
              - A[1][2] * (A[2][1] * A[3][3] - A[2][3] * A[3][1])
              + A[1][3] * (A[2][1] * A[3][2] - A[2][2] * A[3][1])
  /\ Cross(A[1], A[2]) = VNeg(Cross(A[2], A[1]))
  /\ Dot(Cross(A[1], A[2]), A[3]) = Det(A)
  /\ Dot(Cross(A[1], A[2]), A[1]) = 0
  /\ DeleteRowAndColumn(Transpose(A), 1, 2) = Transpose(DeleteRowAndColumn(A, 2, 1))
BitStringLaws ==       \* (ph mentioned only to make this a state-level invariant for TLC)
  ph \in {0, 1} /\ \A n \in 1..4 :
    /\ Len(BitStrings(n)) = Pow2(n)
    /\ Cardinality({BitStrings(n)[k] : k \in 1..Pow2(n)}) = Pow2(n)
    /\ \A k \in 1..Pow2(n) : \A i \in 1..n : BitStrings(n)[k][i] \in {0, 1}
    /\ BitStrings(n)[1] = Null(n) /\ BitStrings(n)[2] = [i \in 1..n |-> IF i = 1 THEN 1 ELSE 0]

----------------------------------------------------------------------------
(* extension round: laws over pairs (A, B) *)
SignVecs(n) == [1..n -> {-1, 1}]
NormLaws ==
  /\ InfinityNorm(MAdd(A, B)) <= InfinityNorm(A) + InfinityNorm(B)
  /\ InfinityNorm(MMul(A, B)) <= InfinityNorm(A) * InfinityNorm(B)
  /\ InfinityNorm(MScale(-3, A)) = 3 * InfinityNorm(A)
  /\ (InfinityNorm(A) = 0 <=> A = MScale(0, A))
  \* operator norm w.r.t. the maximum norm: attained on a sign vector
  /\ InfinityNorm(A) = MaxOfSet({MaxOfSet({Abs(MVec(A, sv)[i]) : i \in 1..Rows(A)}) : sv \in SignVecs(Cols(A))})
DivModLaws ==
  \A x \in {A[1][1], A[1][2], A[2][1], 5, -5, 7, -7}, y \in {B[1][1], B[1][2], 3, -3} :
    y # 0 =>
      /\ x = y * TruncDiv(x, y) + CMod(x, y)
      /\ Abs(CMod(x, y)) < Abs(y) /\ (CMod(x, y) = 0 \/ (CMod(x, y) < 0) = (x < 0))
      \* the code's formulation of ceil_div_signed agrees with "least integer not less than x / y"
      /\ CeilDiv(x, y) = (IF CMod(x, y) # 0 /\ (x < 0) = (y < 0) THEN TruncDiv(x, y) + 1 ELSE TruncDiv(x, y))
      /\ CeilDiv(x, y) * y * (IF y > 0 THEN 1 ELSE -1) >= x * (IF y > 0 THEN 1 ELSE -1)
VectorOptLaws ==
  LET v == A[1]
      w == B[1]
  IN /\ (VDiv(v, w) = <<>> <=> \E i \in 1..2 : w[i] = 0) /\ (VMod(v, w) = <<>> <=> VDiv(v, w) = <<>>)
     /\ (VDiv(v, w) # <<>> => VAdd(VMul(w, VDiv(v, w)[1]), VMod(v, w)[1]) = v)
     /\ VDivScalar(v, 0) = <<>> /\ VModScalar(v, 0) = <<>> /\ VCeilDivSigned(v, 0) = <<>>
     /\ VDivScalar(v, 1) = <<v>> /\ VCeilDivSigned(v, 1) = <<v>> /\ VCeilDivSigned(v, -1) = <<VNeg(v)>>
     /\ MVec(A, Unit(2, 0)) = <<A[1][1], A[2][1]>> /\ MVec(A, Unit(2, 1)) = <<A[1][2], A[2][2]>>
     /\ Dot(Unit(3, 1), Unit(3, 1)) = 1 /\ Dot(Unit(3, 0), Unit(3, 2)) = 0
     /\ (IsQuadratic(v) <=> v[1] = v[2]) /\ IsQuadratic(Unit(1, 0))
Sorted2(r) == IF r[1] <= r[2] THEN r ELSE <<r[2], r[1]>>
IntervalLaws ==
  LET x == Sorted2(A[1])
      y == Sorted2(B[1])
      D == IntervalDistanceAllowed(x, y)
  IN /\ D = IntervalDistanceAllowed(y, x)                                   \* symmetric
     /\ D # {} /\ Cardinality(D) <= 2
     /\ (x[2] < y[1] => D = {y[1] - x[2]})                                  \* disjoint: the gap
     /\ (x[2] = y[1] /\ x[1] < x[2] /\ y[1] < y[2] => D = {0})              \* touching from outside
     /\ (\E d \in D : d > 0) => (x[2] < y[1] \/ y[2] < x[1])

(* round 3: element / row writes and the four ordering operators (pairs; vectors = rows of A and B) *)
AccessLaws ==
  LET v == A[1]
      w == B[1]
  IN /\ \A i \in 1..2 : /\ SetAt(v, i, 7)[i] = 7
                         /\ \A j \in 1..2 : j # i => SetAt(v, i, 7)[j] = v[j]
                         /\ SetAt(v, i, v[i]) = v
     /\ \A i, j \in 1..2 :
          /\ At(MSetAt(A, i, j, 7), i, j) = 7
          /\ \A k, l \in 1..2 : <<k, l>> # <<i, j>> => At(MSetAt(A, i, j, 7), k, l) = At(A, k, l)
     /\ \A i \in 1..2 : Row(SetRow(A, i, w), i) = w /\ Row(SetRow(A, i, w), 3 - i) = Row(A, 3 - i)
     /\ SetRow(SetRow(A, 1, B[1]), 2, B[2]) = B
     /\ MSetAt(A, 1, 2, B[1][2]) = SetRow(A, 1, SetAt(A[1], 2, B[1][2]))
OrderLaws ==
  \A v \in {A[1], A[2], B[1]}, w \in {A[2], B[1], B[2]} :
    /\ Le(v, v) /\ Ge(v, v) /\ ~Less(v, v) /\ ~Gt(v, v)
    /\ (Le(v, w) <=> (Less(v, w) \/ v = w)) /\ (Ge(v, w) <=> (Gt(v, w) \/ v = w))
    /\ (Gt(v, w) <=> Less(w, v)) /\ (Le(v, w) <=> Ge(w, v))
    /\ (Less(v, w) \/ Gt(v, w) \/ v = w)
    /\ (Le(v, w) /\ Le(w, v) => v = w)
    /\ \A u \in {B[2], A[1]} : Less(v, w) /\ Less(w, u) => Less(v, u)
    \* lexicographic: the first component decides, the second one only on a tie
    /\ (v[1] < w[1] => Less(v, w)) /\ (v[1] = w[1] => (Less(v, w) <=> v[2] < w[2]))

----------------------------------------------------------------------------
(* defective definitions for the vacuity guards *)
DetRowMod3(M) ==       \* DESIGN 7: sign by Row % 3 (0-based row)
  IF Rows(M) = 1 THEN M[1][1]
  ELSE Sum(LAMBDA i : (IF (i - 1) % 3 = 0 THEN 1 ELSE -1) * M[i][1] * Det(DeleteRowAndColumn(M, i, 1)), Rows(M))
DetNoSign(M) ==        \* the permanent: every cofactor sign +1
  IF Rows(M) = 1 THEN M[1][1]
  ELSE Sum(LAMBDA i : M[i][1] * Det(DeleteRowAndColumn(M, i, 1)), Rows(M))
TransposeIdentity(M) == M                                  \* DESIGN 7: identity instead of swap
AdjCofactor(M) == MInit(Rows(M), Rows(M), LAMBDA i, j : Sign(i + j) * Minor(M, i, j))   \* DESIGN 7: cofactor matrix
MMulTransposedRight(M, N) == MInit(Rows(M), Cols(N), LAMBDA i, j : Sum(LAMBDA k : M[i][k] * N[j][k], Cols(M)))
MAddAsSub(M, N) == MMap2(LAMBDA x, y : x - y, M, N)
MVecColumns(M, v) == [i \in 1..Rows(M) |-> Sum(LAMBDA k : M[k][i] * v[k], Cols(M))]
IdentityOnes(n) == MInit(n, n, LAMBDA i, j : 1)
TransposeRotate(M) == MInit(Cols(M), Rows(M), LAMBDA i, j : M[Rows(M) + 1 - j][i])
CModFloor(a, b) == a - b * (IF b > 0 THEN a \div b ELSE (-a) \div (-b))      \* floored instead of truncated
InfinityNormColumns(M) == MaxOfSet({Sum(LAMBDA i : Abs(M[i][j]), Rows(M)) : j \in 1..Cols(M)})   \* the 1-norm
UnitOneBased(n, axis) == [i \in 1..n |-> IF i = axis THEN 1 ELSE 0]
IvOverlapRuleMinMax(x, y) == (IF x[1] < y[1] THEN x[1] ELSE y[1]) - (IF x[2] < y[2] THEN y[2] ELSE x[2])
LeAsLess(v, w) == Less(v, w)                                   \* <= that is false on equal operands
SetAtShifted(v, i, x) == [v EXCEPT ![IF i = Len(v) THEN 1 ELSE i + 1] = x]   \* the write lands one component further
BitStringsReversed(n) == [k \in 1..Pow2(n) |-> [i \in 1..n |-> ((k - 1) \div Pow2(n - i)) % 2]]
=============================================================================
