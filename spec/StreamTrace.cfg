SPECIFICATION TSpec
CONSTANTS
  Sym = {97}
  MaxLen = 0
  WithFailAt = FALSE
  MaxOps = 0
INVARIANT Verdict
CONSTRAINT Consumed
POSTCONDITION Post
CHECK_DEADLOCK FALSE
