SPECIFICATION Spec
CONSTANTS
  Mode = "bytes"
  Step = 257
  DecRange = 70000
  U8 <- Utf8
  WR <- WriteBug
  TD <- ToDec
  NT <- NumText
  NTL <- NumTextLoc
  CV <- Convert
  RV <- ReadVec
INVARIANTS LawBytesRoundTrip
CHECK_DEADLOCK FALSE
