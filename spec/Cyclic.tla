------------------------------- MODULE Cyclic -------------------------------
(* fcppt::cyclic_iterator over a boundary of `len` positions 0..len-1 as a
   state machine, transcribed from cyclic_iterator_impl.hpp:
     increment: if (++it == second) it = first
     decrement: if (it == first) it = prev(second) else --it
     advance(n): size = second - first; d = (it - first + n) % size  (C++ %,
                 truncating); it = first + (d < 0 ? d + size : d)

   One behaviour per (len, start, n): `adv` is where advance(n) lands,
   `walk` performs |n| single steps (forward if n >= 0, else backward).

   Invariants:
     Inside      every position stays within 0..len-1
     AdvanceLaw  when the walk is complete it stands where advance(n) landed,
                 and that is (start + n) mod len
     StepLaw     the walk after j steps stands at (start +/- j) mod len
   NoFixBug = TRUE drops the correction of a negative remainder (vacuity
   guard; the planned mutant).  StepBug = TRUE drops the wrap of decrement. *)
EXTENDS Ranges

CONSTANTS MaxLen, MaxN, NoFixBug, StepBug

VARIABLES len, start, n, walk, j, prev
vars == <<len, start, n, walk, j, prev>>

(* C++ integer division truncates toward zero *)
TruncRem(a, m) == IF a >= 0 THEN a % m ELSE -((-a) % m)

AdvanceImpl(i, d, size) ==
  LET r == TruncRem(i + d, size) IN IF r < 0 /\ ~NoFixBug THEN r + size ELSE r
IncImpl(i, size) == IF i + 1 = size THEN 0 ELSE i + 1
DecImpl(i, size) == IF i = 0 /\ ~StepBug THEN size - 1 ELSE i - 1

Init ==
  /\ len \in 1..MaxLen
  /\ start \in 0..(len - 1)
  /\ n \in -MaxN..MaxN
  /\ walk = start
  /\ j = 0
  /\ prev = start      \* round 3: the position a post-increment / post-decrement of the last step returned

Step ==
  /\ j < Abs(n)
  /\ walk' = IF n > 0 THEN IncImpl(walk, len) ELSE DecImpl(walk, len)
  /\ j' = j + 1
  /\ prev' = walk     \* base_impl.hpp operator++(int): derived temp{this->get()}; ++(*this); return temp;
  /\ UNCHANGED <<len, start, n>>
Done == j = Abs(n) /\ UNCHANGED vars
Spec == Init /\ [][Step \/ Done]_vars

adv == AdvanceImpl(start, n, len)

Inside == walk \in 0..(len - 1) /\ adv \in 0..(len - 1)
StepLaw == walk = (IF n >= 0 THEN start + j ELSE start - j) % len
(* extension: the random-access operations that fcppt::iterator::base derives from advance /
   distance_to (base_decl.hpp: "advance: Moves the iterator forwards/backwards", "distance_to:
   The value to advance *this with in order to be equal to the argument"), with
   cyclic_iterator::distance_to = std::distance(it_, other.it_):
     (a + n) - n = a,   a + (b - a) = b,   a[n] = *(a + n)  (same position),
     a < b  <=>  (b - a) > 0,  and exactly one of a < b, a == b, a > b *)
DistImpl(i, j2) == j2 - i
RALaw ==
  \A j2 \in 0..(len - 1) :
    LET i == start IN
    /\ AdvanceImpl(AdvanceImpl(i, n, len), -n, len) = i
    /\ AdvanceImpl(i, DistImpl(i, j2), len) = j2
    /\ (DistImpl(i, j2) > 0) = (i < j2)
    /\ Cardinality({x \in {"lt", "eq", "gt"} :
          \/ x = "lt" /\ DistImpl(i, j2) > 0
          \/ x = "eq" /\ i = j2
          \/ x = "gt" /\ DistImpl(j2, i) > 0}) = 1

(* round 3: the operators fcppt::iterator::base derives from increment / decrement / advance
   (base_impl.hpp): it++ / it-- return the position before the step (PostLaw: the returned positions
   are start and then the positions of the |n| single steps, shifted by one); it[n] = *(it + n),
   n + it = it + n, it - n = it + (-n) land where advance(n) resp. advance(-n) lands (SubscriptLaw:
   the same element as |n| single steps reach). *)
PostLaw ==
  /\ j = 0 => prev = start
  /\ j > 0 => /\ prev = (IF n >= 0 THEN start + (j - 1) ELSE start - (j - 1)) % len
              /\ prev = (IF j = 1 THEN start ELSE CycSteps(start, n, len)[j - 1])
              /\ walk = (IF n > 0 THEN CycInc(prev, len) ELSE CycDec(prev, len))
SubscriptImpl(i, d, size) == AdvanceImpl(i, d, size)           \* *(*this + n): the position dereferenced
SubscriptLaw ==
  /\ SubscriptImpl(start, n, len) = Last(CycSteps(start, n, len), start)
  /\ SubscriptImpl(start, n, len) \in 0..(len - 1)
  /\ AdvanceImpl(start, -n, len) = Last(CycSteps(start, -n, len), start)

AdvanceLaw ==
  /\ adv = CycAdvance(start, n, len)
  /\ (j = Abs(n)) => walk = adv
  /\ CycSteps(start, n, len) = [i \in 1..Abs(n) |-> (IF n >= 0 THEN start + i ELSE start - i) % len]
=============================================================================
