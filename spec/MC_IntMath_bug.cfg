SPECIFICATION Spec
CONSTANTS
  N = 34
  BreakCeil = TRUE
INVARIANTS CeilLaw TruncLaw ModLaw ClampLaw NextPow2Law Log2Law IsPow2Law DiffLaw QuotientRepresentable BitLaw WrapLaw IntervalLaw
CHECK_DEADLOCK FALSE
