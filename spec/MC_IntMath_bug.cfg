SPECIFICATION Spec
CONSTANTS
  N = 34
  BreakCeil = TRUE
INVARIANTS CeilLaw
CHECK_DEADLOCK FALSE
