SPECIFICATION Spec
CONSTANTS
  N = 2
  MaxC = 5
  CarryBug = 1
  EndBug = FALSE
  SizeBug = FALSE
VIEW View
INVARIANTS AtEnd
