SPECIFICATION Spec
CONSTANTS
  N = 3
  Bug = "none"
  Group = "order"
  MaxLen = 0
INVARIANTS TypeOK LawOptOrder LawVarOrder LawVarCompare
