SPECIFICATION SSpec
CONSTANTS
  NL = 2
  NE = 2
  AbsBug = "none"
  SigBug = "hold_move_copies"
  NB = 1
VIEW SView
INVARIANTS LawOwnership
CHECK_DEADLOCK FALSE
