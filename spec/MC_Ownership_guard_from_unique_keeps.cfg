SPECIFICATION Spec
CONSTANTS
  NO = 3
  NS = 2
  NW = 2
  NU = 2
  Bug = "from_unique_keeps"
VIEW View
INVARIANT SingleOwnerKind
CHECK_DEADLOCK FALSE
