SPECIFICATION Spec
CONSTANTS
  N = 2
  Rad = 1
  Bug = 4
  OldDistance = FALSE
CHECK_DEADLOCK FALSE
INVARIANTS IntersectionLaw
