SPECIFICATION BSpec
CONSTANTS
  NV = 1
  NB = 1
  Val = {0, 1}
  MaxLen = 2
  MaxW = 2
  MaxCap = 12
  AliasBug = FALSE
  EraseRetBug = FALSE
  GrowBug = FALSE
VIEW BView
INVARIANTS Refines BRefines RepInv BRepInv
CONSTRAINT EmitBScripts
CHECK_DEADLOCK FALSE
