SPECIFICATION SpecIM
CONSTANTS
  MaxLen = 2
  SetMax = 3
INVARIANT IMTypeOK
PROPERTY IMMonotone
