------------------------------ MODULE Bitfield ------------------------------
(* C10 - fcppt::container::bitfield::object<Enum, Word> is observationally a
   set of enumerators.

   The abstract value of a bitfield over an enum with N enumerators is a subset
   of Elems = 0..N-1 (the enumerators, by their integer value).  This module
   states what every public operation returns / leaves behind, as plain set
   algebra; it knows nothing about storage words.  It is the only oracle:

     * BitfieldImpl.tla runs the word-level transcription of the headers in
       lock-step with the register machine below (refinement, "equal sets =>
       equal words and hashes");
     * BitfieldJudge.tla evaluates these definitions for every record written by
       harness/c10_bitfield.cpp from the real operators.

   Documentation used: doc/files/modules/container/bitfield.doxygen ("treat it
   like an integral type ... or like a std::map<Enum,bool>"), the \brief texts in
   object_decl.hpp, operators.hpp ("bit-wise or/and/xor/not for all bits"),
   comparison.hpp, is_subset_eq.hpp ("all bits set in left are also set in
   right"), init.hpp ("every bit e is set to function(e)").  "All bits" of a
   bitfield are its N enumerators: padding of the last storage word is not a bit
   of the bitfield (it cannot be named by any enumerator). *)
EXTENDS Naturals, Sequences, FiniteSets, TLC

CONSTANT N          \* number of enumerators (fcppt::enum_::size)

Elems == 0..(N - 1)
Values == SUBSET Elems

(* ------------------------------------------------------------------ algebra *)
Null == {}                                            \* object::null()
SetBit(s, i, b) == IF b THEN s \cup {i} ELSE s \ {i}  \* set(i,b), operator[](i) = b
Get(s, i) == i \in s                                  \* get(i), operator[](i), field & i
SeqToSet(xs) == {xs[k] : k \in 1..Len(xs)}
FromList(xs) == SeqToSet(xs)                          \* object(initializer_list)
InitBy(f) == {i \in Elems : f[i]}                     \* init<bitfield>(function)
Or(a, b) == a \cup b
And(a, b) == a \cap b
Xor(a, b) == (a \ b) \cup (b \ a)
Not(a) == Elems \ a                                   \* complement relative to the enum
SubsetEq(a, b) == a \subseteq b                       \* is_subset_eq(a, b)
Eq(a, b) == a = b
(* the hash is only constrained by: equal values hash equally *)
HashCoherent(a, b, hashes_equal) == (a = b) => hashes_equal

(* ------------------------------------------------------- the register machine
   Two bitfield registers x and y; every operation of the public interface as an
   operation record with its effect Eff (the variables themselves live in
   BitfieldImpl.tla, which runs this machine in lock-step with the storage words,
   and in the judge, which folds Eff over recorded histories).  Results are
   written to x (y is the right operand); swap / copy move values between the
   registers so that every pair of computed values meets. *)
BaseOp == [op |-> "null", i |-> 0, j |-> 0, b |-> FALSE, s |-> <<>>]
OpE(name, i) == [BaseOp EXCEPT !.op = name, !.i = i]
OpEE(name, i, j) == [BaseOp EXCEPT !.op = name, !.i = i, !.j = j]
OpEEB(name, i, j, b) == [BaseOp EXCEPT !.op = name, !.i = i, !.j = j, !.b = b]
OpEB(name, i, b) == [BaseOp EXCEPT !.op = name, !.i = i, !.b = b]
Op0(name) == [BaseOp EXCEPT !.op = name]

ElemOps == {"ore", "orae"}                 \* field | e, field |= e
ElemBoolOps == {"set", "idx"}              \* set(e,b), field[e] = b
BinOps == {"or", "and", "xor", "ora", "anda", "xora"}
NullaryOps == {"not", "swap", "copy", "null", "selfora", "selfanda", "selfxora"}
(* operations with a set-valued argument (driven by the harness, not enumerated
   by the model checker): initializer list and init *)
ListOps == {"ilist", "init"}
(* operator[] returns "a reference to a mask value (a reference to a boolean,
   basically)" (object_decl.hpp), and the module documentation says a bitfield can
   be treated "like a std::map<Enum,bool>".  Assigning one such reference to another
   therefore assigns the BOOLEAN it refers to, as it does for bool& and for
   map<Enum,bool>::operator[]:
     idxcopy    x[i] = x[j]          idxcopy_y  x[i] = y[j]
     chain      x[i] = x[j] = b      (right to left; both end up with b) *)
ProxyOps == {"idxcopy", "idxcopy_y"}
ProxyChainOps == {"chain"}

Ops == {OpE(o, i) : o \in ElemOps, i \in Elems}
       \cup {OpEB(o, i, b) : o \in ElemBoolOps, i \in Elems, b \in BOOLEAN}
       \cup {Op0(o) : o \in BinOps \cup NullaryOps}
       \cup {OpEE(o, i, j) : o \in ProxyOps, i \in Elems, j \in Elems}
       \cup {OpEEB(o, i, j, b) : o \in ProxyChainOps, i \in Elems, j \in Elems, b \in BOOLEAN}
(* one representative per code path: idx/ore/orae go through the same proxy
   assignment as set, the non-assigning binary operators are the assigning ones
   applied to a copy, and x op= x is  copy; op  - used by the model checker for the
   larger enums, where the aliases would only multiply the transitions *)
CoreOps == {OpEB("set", i, b) : i \in Elems, b \in BOOLEAN}
           \cup {Op0(o) : o \in {"or", "and", "xor", "not", "swap", "copy", "null"}}

(* precondition of the C++ API: enumerators are in range *)
Pre(a) ==
  /\ a.op \in ElemOps \cup ElemBoolOps \cup BinOps \cup NullaryOps \cup ListOps \cup ProxyOps \cup ProxyChainOps
  /\ a.op \in ElemOps \cup ElemBoolOps \cup ProxyOps \cup ProxyChainOps => a.i \in Elems
  /\ a.op \in ProxyOps \cup ProxyChainOps => a.j \in Elems
  /\ a.op \in ListOps => SeqToSet(a.s) \subseteq Elems

R(nx, ny) == [x |-> nx, y |-> ny]

Eff(vx, vy, a) ==
  CASE a.op \in {"set", "idx"} -> R(SetBit(vx, a.i, a.b), vy)
    [] a.op \in {"ore", "orae"} -> R(SetBit(vx, a.i, TRUE), vy)
    [] a.op \in {"or", "ora"} -> R(Or(vx, vy), vy)
    [] a.op \in {"and", "anda"} -> R(And(vx, vy), vy)
    [] a.op \in {"xor", "xora"} -> R(Xor(vx, vy), vy)
    [] a.op = "selfora" -> R(Or(vx, vx), vy)        \* x |= x
    [] a.op = "selfanda" -> R(And(vx, vx), vy)      \* x &= x
    [] a.op = "selfxora" -> R(Xor(vx, vx), vy)      \* x ^= x
    [] a.op = "not" -> R(Not(vx), vy)
    [] a.op = "swap" -> R(vy, vx)
    [] a.op = "copy" -> R(vx, vx)
    [] a.op = "null" -> R(Null, vy)
    [] a.op \in {"ilist", "init"} -> R(FromList(a.s), vy)
    [] a.op = "idxcopy" -> R(SetBit(vx, a.i, Get(vx, a.j)), vy)
    [] a.op = "idxcopy_y" -> R(SetBit(vx, a.i, Get(vy, a.j)), vy)
    [] a.op = "chain" -> R(SetBit(SetBit(vx, a.j, a.b), a.i, a.b), vy)

(* ---------------------------------------------------------- other observers *)
(* underlying_value (single-word bitfields; test/container/bitfield/underlying_value.cpp:
   enumerator e is the bit shifted_mask(e) = 2^e of the word) and the constructor
   from the word array *)
RECURSIVE SumPow2(_)
SumPow2(s) == IF s = {} THEN 0 ELSE LET e == CHOOSE e \in s : TRUE IN 2 ^ e + SumPow2(s \ {e})
Underlying(s) == SumPow2(s)
(* (v is a TLC integer, below 2^31: only the enumerators 0..30 can be bits of it) *)
FromWord(v) == {e \in Elems \cap 0..30 : (v \div (2 ^ e)) % 2 = 1}

(* operator<< (output.hpp "Outputs a bitfield"; format fixed by
   test/container/bitfield/output.cpp: "{}", "{test3}", "{test1,test2}"): the names of the
   contained enumerators in enumerator order, comma separated, in braces.  As code
   points; names[e+1] is the enum_::to_string of enumerator e, supplied by the caller. *)
RECURSIVE JoinNames(_, _, _)
JoinNames(s, e, names) ==
  IF e >= N THEN <<>>
  ELSE IF e \in s
       THEN names[e + 1] \o (IF \E f \in s : f > e THEN <<44>> ELSE <<>>) \o JoinNames(s, e + 1, names)
       ELSE JoinNames(s, e + 1, names)
Output(s, names) == <<123>> \o JoinNames(s, 0, names) \o <<125>>

(* ------------------------------------------------------------ laws (theorems
   of set algebra that TLC evaluates in every reachable state; they pin the
   definitions above to each other and fail if one of them is mistyped) *)
LawsOf(x, y) ==
  /\ Not(Not(x)) = x
  /\ Not(Or(x, y)) = And(Not(x), Not(y))
  /\ Xor(x, y) = And(Or(x, y), Not(And(x, y)))
  /\ Xor(x, x) = Null /\ Xor(x, Null) = x
  /\ SubsetEq(x, y) = (And(x, y) = x)
  /\ SubsetEq(x, y) = (Or(x, y) = y)
  /\ (SubsetEq(x, y) /\ SubsetEq(y, x)) = Eq(x, y)
  /\ Not(Null) = Elems
  /\ \A i \in Elems : Get(SetBit(x, i, TRUE), i) /\ ~Get(SetBit(x, i, FALSE), i)
  /\ \A i \in Elems : \A b \in BOOLEAN : SetBit(x, i, b) \ {i} = x \ {i}    \* frame: other bits untouched
  /\ InitBy([i \in Elems |-> Get(x, i)]) = x
  /\ Cardinality(Not(x)) = N - Cardinality(x)
  /\ (Underlying(x) = Underlying(y)) = (x = y)
  /\ FromWord(Underlying(x)) = x
  /\ Underlying(Or(x, y)) + Underlying(And(x, y)) = Underlying(x) + Underlying(y)

=============================================================================
