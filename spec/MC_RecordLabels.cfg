SPECIFICATION Spec
CONSTANT LabelBug = "none"
INVARIANTS LawSetGet LawProduct
