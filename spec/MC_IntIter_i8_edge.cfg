SPECIFICATION Spec
CONSTANTS
  T = "i8"
  Dom <- DomEdgeT
  ClampBug = FALSE
  SizeBug = FALSE
  DefBug = FALSE
INVARIANTS InType Prefix AtEnd SizeLaw RangeLaw
