SPECIFICATION Spec
CONSTANTS
  N = 2
  MaxC = 5
  CarryBug = 0
  EndBug = FALSE
  SizeBug = FALSE
VIEW View
INVARIANTS TypeOK InSet Prefix AtEnd SizeLaw
