---------------------------- MODULE LinearityMC ----------------------------
(* C05 - model check of the ownership machine of Linearity.tla on a small universe.

   One call with two arguments: argument 1 passed as an rvalue holding object 1 (token 1),
   argument 2 passed as an lvalue (or const lvalue) holding object 2 (token 2).  The "library"
   and the harness's continuation may then perform ANY event over at most MaxObj objects whose
   set of violation reasons Why(S, ev) is contained in Allowed, and finally end the call with
   any result sequence (<= 2 entries) over the known objects.

   With Allowed = {} (the judge's rules enforced) the invariants below hold in every reachable
   state: they say that the event-level rules of Linearity.tla entail the property-level
   statements of C05 (no duplication of an rvalue element, lvalue arguments intact, reads only
   of live objects, End's conservation check is implied for results made of distinct objects).
   With one reason allowed (bug configs) the corresponding invariant must fail (vacuity), and
   the witness configs show that the intended behaviours (move the rvalue element into the
   result, copy the lvalue element into the result) are reachable with no violation. *)
EXTENDS Linearity, TLC

CONSTANTS MaxObj,      \* object ids 1..MaxObj
          Allowed,     \* reasons tolerated by the transition relation
          LCat         \* category of the second argument: "lvalue" or "clvalue"

VARIABLES S, reads, lastEnd

vars == <<S, reads, lastEnd>>

Objs == 1..MaxObj
Fresh == IF \E o \in Objs : ~Known(S, o) THEN {CHOOSE o \in Objs : ~Known(S, o) /\ \A p \in Objs : p < o => Known(S, p)} ELSE {}
KnownObjs == DOMAIN S.objs

S0 == Eff(Eff(Eff(InitS, [e |-> "new", obj |-> 1, tok |-> 1]), [e |-> "new", obj |-> 2, tok |-> 2]),
          [e |-> "begin", op |-> "mc", keeps |-> FALSE,
           args |-> <<[cat |-> "rvalue", objs |-> <<1>>], [cat |-> LCat, objs |-> <<2>>]>>])

Init == S = S0 /\ reads = {} /\ lastEnd = <<>>

Step(ev) ==
  /\ Running(S)
  /\ Why(S, ev) \subseteq Allowed
  /\ S' = Eff(S, ev)

Copy == \E s \in KnownObjs, d \in Fresh : Step([e |-> "copy", src |-> s, dst |-> d]) /\ UNCHANGED <<reads, lastEnd>>
Move == \E s \in KnownObjs, d \in Fresh : Step([e |-> "move", src |-> s, dst |-> d]) /\ UNCHANGED <<reads, lastEnd>>
CopyAssign == \E s \in KnownObjs, d \in KnownObjs : Step([e |-> "copy_assign", src |-> s, dst |-> d]) /\ UNCHANGED <<reads, lastEnd>>
MoveAssign == \E s \in KnownObjs, d \in KnownObjs : s # d /\ Step([e |-> "move_assign", src |-> s, dst |-> d]) /\ UNCHANGED <<reads, lastEnd>>
Read == \E o \in KnownObjs : Step([e |-> "read", obj |-> o]) /\ reads' = reads \cup {S.objs[o].st} /\ UNCHANGED lastEnd
Destroy == \E o \in KnownObjs : S.objs[o].st # "dead" /\ Step([e |-> "destroy", obj |-> o]) /\ UNCHANGED <<reads, lastEnd>>
CbEnter == /\ S.depth = 0
           /\ \E o \in KnownObjs, c \in {"rvalue", "lvalue", "clvalue"} :
                Step([e |-> "cb_enter", recv |-> <<[obj |-> o, cat |-> c]>>])
           /\ UNCHANGED <<reads, lastEnd>>
CbExit == S.depth > 0 /\ Step([e |-> "cb_exit"]) /\ UNCHANGED <<reads, lastEnd>>

ResultSeqs == {<<>>} \cup {<<a>> : a \in KnownObjs} \cup {<<p[1], p[2]>> : p \in {q \in KnownObjs \X KnownObjs : q[1] # q[2]}}
EndEv(res) == [e |-> "end",
               result |-> [i \in DOMAIN res |-> [obj |-> res[i], tok |-> S.objs[res[i]].tok]],
               args |-> <<[objs |-> <<1>>], [objs |-> <<2>>]>>]
End == /\ S.depth = 0
       /\ \E res \in ResultSeqs : Step(EndEv(res)) /\ lastEnd' = [i \in DOMAIN res |-> S.objs[res[i]].tok]
       /\ UNCHANGED reads

Next == Copy \/ Move \/ CopyAssign \/ MoveAssign \/ Read \/ Destroy \/ CbEnter \/ CbExit \/ End
Spec == Init /\ [][Next]_vars

(* ---------------------------------------------------------------- invariants *)
TypeOK ==
  /\ DOMAIN S.objs \subseteq Objs
  /\ \A o \in DOMAIN S.objs : S.objs[o].st \in {"live", "moved", "dead"} /\ S.objs[o].tok \in {1, 2}
  /\ S.phase \in {"run", "done"} /\ S.depth \in 0..1

LibHolders(t) == {o \in KnownObjs : S.objs[o].st = "live" /\ S.objs[o].tok = t /\ ~S.objs[o].cb}
\* the library never holds two live objects carrying the rvalue element's value
InvNoDuplication == Cardinality(LibHolders(1)) <= 1
\* the lvalue argument's element is never touched
InvLvalueIntact == S.objs[2].st = "live" /\ S.objs[2].tok = 2
\* value() never saw a moved-from / destroyed object
InvReadsLive == reads \subseteq {"live"}
\* consequence for End: any result made of distinct, library-made live objects passes the
\* duplicate check, and an accepted End never reports the rvalue token twice
InvEndImplied ==
  /\ Running(S) /\ S.depth = 0 =>
       \A res \in ResultSeqs :
          (\A i \in DOMAIN res : S.objs[res[i]].st = "live" /\ ~S.objs[res[i]].cb)
            => "rvalue-element-duplicated" \notin Why(S, EndEv(res))
  /\ S.phase = "done" => Count(1, lastEnd) <= 1
\* nothing passes an lvalue element to a continuation as an rvalue, so a continuation that
\* moves from what it received as an rvalue cannot damage an lvalue argument (covered by
\* InvLvalueIntact through MoveWhy)

(* ---------------------------------------------------------------- witnesses (must be VIOLATED) *)
\* intended behaviour 1: the rvalue element is moved into the result, the lvalue element copied
NoGoodEnd == ~(S.phase = "done" /\ lastEnd = <<1, 2>> /\ S.objs[1].st = "moved" /\ S.objs[2].st = "live")
\* intended behaviour 2: a continuation copies the rvalue element it received as an lvalue
NoHarnessCopy == ~(\E o \in KnownObjs : S.objs[o].cb /\ S.objs[o].tok = 1 /\ S.objs[1].st = "live")
\* intended behaviour 3: swap-like shuffling inside an rvalue argument (std::reverse): the
\* argument's own object is moved from and later revived by a move assignment of another value
NoRevival == ~(/\ S.objs[1].st = "live" /\ S.objs[1].tok = 2
               /\ \E o \in KnownObjs \ {1, 2} : S.objs[o].st = "live" /\ S.objs[o].tok = 1)
=============================================================================
