SPECIFICATION Spec
CONSTANTS
  NN = 4
  Dom = {0, 1, 2}
  MaxLen = 2
  Weaken = "none"
  Families = {"lex"}
INVARIANTS LexLaw RankLaw SubstLaw DerivedLaw
CHECK_DEADLOCK FALSE
