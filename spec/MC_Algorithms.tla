--------------------------- MODULE MC_Algorithms ---------------------------
(* Model check of Algorithms.tla itself: the bounded input space is the set of INITIAL STATES
   (one state per case), the laws are invariants.  A law that fails is printed as a one-state
   counterexample.  The *_bug configurations substitute a defective definition (the planned
   mutants of DESIGN.md section 7 and a few more) and TLC must find the counterexample:
   vacuity guards. *)
EXTENDS Algorithms, TLC

CONSTANTS MaxLen,      \* sequences over 0..2 up to this length
          SetMax       \* sets are subsets of 0..SetMax

VARIABLES s,           \* a sequence over 0..2 (also: a string whose delimiter is v)
          pt,          \* a predicate table
          v,           \* a value 0..2 (searched value / delimiter / key)
          a, b, c,     \* strictly sorted sequences (sets)
          m,           \* a map: pairs with strictly increasing keys
          ut           \* a unary function table
vars == <<s, pt, v, a, b, c, m, ut>>

Dom == 0..2
Seqs(n) == UNION {[1..k -> Dom] : k \in 0..n}
PredTables == [1..3 -> BOOLEAN]
UnaryTables == [1..3 -> Dom]
SetSeqs == {SortedSeqOf(S) : S \in SUBSET (0..SetMax)}
Maps == UNION {{PairsSorted({<<k, f[k]>> : k \in K}) : f \in [K -> Dom]} : K \in SUBSET Dom}

(* three input spaces; the variables not used by a space are pinned *)
InitSeq == /\ s \in Seqs(MaxLen) /\ pt \in PredTables /\ v \in Dom
           /\ a = <<>> /\ b = <<>> /\ c = <<>> /\ m = <<>> /\ ut = <<0, 0, 0>>
InitSet == /\ a \in SetSeqs /\ b \in SetSeqs /\ c \in SetSeqs
           /\ s = <<>> /\ pt = <<FALSE, FALSE, FALSE>> /\ v = 0 /\ m = <<>> /\ ut = <<0, 0, 0>>
InitMap == /\ m \in Maps /\ v \in Dom /\ ut \in UnaryTables /\ s \in Seqs(2)
           /\ a = <<>> /\ b = <<>> /\ c = <<>> /\ pt = <<FALSE, FALSE, FALSE>>
Next == UNCHANGED vars
SpecSeq == InitSeq /\ [][Next]_vars
SpecSet == InitSet /\ [][Next]_vars
SpecMap == InitMap /\ [][Next]_vars

P(e) == Ap(pt, e)
NotP(e) == ~Ap(pt, e)
Count(q, x) == Cardinality({i \in Indices(q) : q[i] = x})

----------------------------------------------------------------------------
(* laws over (s, pt, v) *)
ReverseInvolution == Reverse(Reverse(s)) = s
ReverseAntiHom == Reverse(s \o <<v>>) = <<v>> \o Reverse(s)

RemoveLaws ==
  LET r1 == RemoveIfR(pt, s)
      r2 == RemoveIfR(pt, r1.st)
  IN /\ r2.st = r1.st /\ ~r2.r                                  \* idempotent, nothing left to remove
     /\ \A i \in Indices(r1.st) : ~P(r1.st[i])
     /\ r1.r <=> ContainsIf(P, s)
     /\ Remove(Remove(s, v), v) = Remove(s, v) /\ ~Contains(Remove(s, v), v)
     /\ \A x \in Dom \ {v} : Count(Remove(s, v), x) = Count(s, x)

UniqueLaws ==
  LET u == Unique(s)
  IN /\ Unique(u) = u
     /\ \A i \in 1..(Len(u) - 1) : u[i] # u[i + 1]
     /\ RangeOf(u) = RangeOf(s)
     /\ (s # <<>>) => u[1] = s[1]

(* fold_break with  g(e, st) = (break iff pt says so for e, (2 st + e + 1) mod 3) *)
G(e, st) == <<Ap(pt, e), (2 * st + e + 1) % 3>>
F(e, st) == (2 * st + e + 1) % 3
FoldBreakPrefix ==
  LET r == FoldBreakR(G, v, s)
      x == Len(r.log)
      visited == [i \in 1..x |-> r.log[i][1]]
  IN /\ visited = Prefix(s, x)                                   \* a prefix, in order
     /\ x = MinOf(FirstIdx(s, P), Len(s))                        \* stops after the first break
     /\ r.r = FoldLeft(F, v, visited)                            \* = fold over that prefix
     /\ (~ContainsIf(P, s)) => r.r = FoldLeft(F, v, s)
     /\ r.log = Prefix(FoldR(F, v, s).log, x)

SearchLaws ==
  /\ AllOf(P, s) <=> ~ContainsIf(NotP, s)
  /\ ContainsIf(P, s) <=> FindIfOpt(P, s) # None
  /\ Contains(s, v) <=> FindOpt(s, v) # None
  /\ FindOpt(s, v) # None => (s[FindOpt(s, v)[1] + 1] = v /\ ~Contains(Prefix(s, FindOpt(s, v)[1]), v))
  /\ AllOfR(pt, 0, s).log = LoopBreak(NotP, s) /\ Prefix(Loop(s), Len(LoopBreak(P, s))) = LoopBreak(P, s)
  /\ FindByOpt(LAMBDA e : IF P(e) THEN Some(e) ELSE None, s) =
       (IF FindIfOpt(P, s) = None THEN None ELSE Some(s[FindIfOpt(P, s)[1] + 1]))

BinarySearchLaws ==
  IsSorted(s) =>
    /\ IsStrictlySorted(s) => (BinarySearch(s, v) # None <=> Contains(s, v))
    /\ IsStrictlySorted(s) => BinarySearch(s, v) = FindOpt(s, v)
    /\ BinarySearch(s, v) # None <=> Count(s, v) = 1
    /\ EqualRange(s, v)[2] - EqualRange(s, v)[1] = Count(s, v)
    /\ \A i \in Indices(s) : (EqualRange(s, v)[1] < i /\ i <= EqualRange(s, v)[2]) <=> s[i] = v

MapLaws ==
  /\ MapOptional(LAMBDA e : Some(e), s) = s
  /\ MapOptional(LAMBDA e : IF P(e) THEN None ELSE Some(e), s) = RemoveIf(P, s)
  /\ MapConcat(LAMBDA e : <<e>>, s) = s
  /\ Len(MapConcat(LAMBDA e : <<e, e>>, s)) = 2 * Len(s)
  /\ IterationR(pt, 0, s).st = RemoveIf(P, s)

(* the string s with delimiter v *)
SplitJoinInverse ==
  LET pieces == SplitString(s, v)
  IN /\ JoinStrings(pieces, <<v>>) = s
     /\ Len(pieces) = Count(s, v) + 1
     /\ \A i \in Indices(pieces) : ~Contains(pieces[i], v)
     /\ SplitString(JoinStrings(pieces, <<v>>), v) = pieces

AtOptionalLaws ==
  \A i \in 0..(MaxLen + 1) :
    /\ (AtOptional(s, i) # None <=> i < Len(s)) /\ (i < Len(s) => AtOptional(s, i) = Some(s[i + 1]))
    /\ LET am == AtOptionalMutR(s, i, 7)
       IN Len(am.st) = Len(s) /\ \A j \in Indices(s) : am.st[j] = (IF j = i + 1 THEN s[j] + 7 ELSE s[j])

ArrayLaws ==
  /\ ArrayJoin(<<s, <<v>>, Reverse(s)>>) = ArrayAppend(ArrayAppend(s, <<v>>), Reverse(s))
  /\ ArrayPushBack(s, v) = ArrayAppend(s, <<v>>)
  /\ \A n \in 0..(MaxLen + 1) : ArrayFromRange(n, s) # None <=> n = Len(s)

----------------------------------------------------------------------------
(* laws over sets (a, b, c) *)
SetAlgebra ==
  /\ IsStrictlySorted(SetUnion(a, b)) /\ IsStrictlySorted(SetIntersection(a, b)) /\ IsStrictlySorted(SetDifference(a, b))
  /\ SetUnion(a, b) = SetUnion(b, a) /\ SetIntersection(a, b) = SetIntersection(b, a)
  /\ SetUnion(a, SetUnion(b, c)) = SetUnion(SetUnion(a, b), c)
  /\ SetIntersection(a, SetUnion(b, c)) = SetUnion(SetIntersection(a, b), SetIntersection(a, c))
  /\ SetDifference(a, SetUnion(b, c)) = SetIntersection(SetDifference(a, b), SetDifference(a, c))
  /\ SetUnion(SetIntersection(a, b), SetDifference(a, b)) = a
  /\ SetIntersection(SetDifference(a, b), b) = <<>>
  /\ RangeOf(SetUnion(a, b)) = RangeOf(a) \cup RangeOf(b)
  /\ RangeOf(SetIntersection(a, b)) = RangeOf(a) \cap RangeOf(b)
  /\ RangeOf(SetDifference(a, b)) = RangeOf(a) \ RangeOf(b)
  /\ ContainerJoin("set", <<a, b, c>>) = SetUnion(a, SetUnion(b, c))

----------------------------------------------------------------------------
(* laws over maps (m, key v, create table ut, s = second map's values) *)
M2 == PairsSorted({<<i - 1, s[i]>> : i \in Indices(s)})   \* a second map built from s
MapLawsAssoc ==
  LET g == GetOrInsertR(m, v, ut, 3)
  IN /\ IsMapSeq(g.st)
     /\ g.inserted <=> v \notin Keys(m)
     /\ Keys(g.st) = Keys(m) \cup {v}
     /\ FindOptMapped(g.st, v) = Some(g.elem + 3)
     /\ \A k \in Keys(m) \ {v} : FindOptMapped(g.st, k) = FindOptMapped(m, k)
     /\ g.log = (IF g.inserted THEN <<v>> ELSE <<>>) /\ Len(g.present) = Len(g.log)
     /\ LET fm == FindOptMappedMutR(m, v, 5)
        IN IsMapSeq(fm.st) /\ Keys(fm.st) = Keys(m)
           /\ (fm.r # None => FindOptMapped(fm.st, v) = Some(fm.r[1] + 5)) /\ (fm.r = None => fm.st = m)
     /\ MapValues(MapValuesRefMutR(m).st) = [i \in Indices(m) |-> MapValues(m)[i] + 10 * i]
     /\ (FindOptMapped(m, v) # None) => g.elem = FindOptMapped(m, v)[1]
     /\ (FindOptMapped(m, v) = None) => g.elem = Ap(ut, v)
     /\ KeySet(m) = SortedSeqOf(Keys(m)) /\ Len(MapValues(m)) = Len(m)
     /\ LET j == ContainerJoin("map", <<m, M2>>)
        IN /\ IsMapSeq(j) /\ Keys(j) = Keys(m) \cup Keys(M2)
           /\ \A k \in Keys(j) : FindOptMapped(j, k) = (IF k \in Keys(m) THEN FindOptMapped(m, k) ELSE FindOptMapped(M2, k))
     /\ IterationSecondR(<<TRUE, FALSE, TRUE>>, m).st = SelectSeq(m, LAMBDA e : e[2] = 1)

----------------------------------------------------------------------------
(* extension round: laws of the added helpers (over s, pt, v) *)
ExtensionSeqLaws ==
  /\ Equal(s, s) /\ (Equal(s, Reverse(s)) <=> s = Reverse(s))
  /\ (s # <<>> => ~Equal(s, Prefix(s, Len(s) - 1)) /\ ~Equal(Prefix(s, Len(s) - 1), s))
  /\ PopBackR(Append(s, v)) = [r |-> Some(v), st |-> s]
  /\ PopFrontR(<<v>> \o s) = [r |-> Some(v), st |-> s]
  /\ PopBackR(<<>>) = [r |-> None, st |-> <<>>] /\ PopFrontR(<<>>) = [r |-> None, st |-> <<>>]
  /\ MaybeFront(s) = AtOptional(s, 0) /\ MaybeBack(s) = AtOptional(s, Len(s) - 1)
  /\ MaybeBackMutR(s, 7).st = AtOptionalMutR(s, Len(s) - 1, 7).st
  /\ Len(SeqText(s)) = 2 + Len(s) + MaxOf(Len(s) - 1, 0)
  /\ (s # <<>> => SplitString(SubSeq(SeqText(s), 2, Len(SeqText(s)) - 1), 44) = [i \in Indices(s) |-> Digit(s[i])])
  /\ TupleText(s)[1] = 40 /\ SubSeq(TupleText(s), 2, Len(TupleText(s)) - 1) = SubSeq(SeqText(s), 2, Len(SeqText(s)) - 1)
  /\ RangeFromPair(s, 0, Len(s)) = s /\ (RangeSingular(s) <=> (~RangeEmpty(s) /\ RangeEmpty(Tail(s))))
  /\ RangeSize(s) = SizeOf(s) /\ DataR(s).null = RangeEmpty(s)
  /\ ContainerMake("set", s) = SortedSeqOf(RangeOf(s)) /\ ContainerMake("vector", s) = s
  /\ EnumIndexOfArray(s, v) = IndexOf(s, v)
  /\ LET names == [i \in 1..3 |-> <<101, 47 + i>>]
     IN \A i \in 1..3 : EnumFromString(names, names[i]) = Some(i - 1) /\ EnumFromString(names, <<101>>) = None
  /\ TupleInvokeR(<<0, 1, 2>>, s).r = SeqSum(s) % 3
  /\ ArrayApplyR(<<<<0, 1, 2>>, <<0, 1, 2>>, <<0, 1, 2>>>>, s, Reverse(s)).r = Reverse(s)
(* index_map accessed once from state s (index v + Len(s) - 1 .. beyond), generator table from pt *)
IndexMapLaws ==
  \A i \in 0..(MaxLen + 2) :
    LET gen(j) == IF Ap(pt, j % 3) THEN 1 ELSE 2
        g == IndexMapGetR(s, i, gen, 7)
    IN /\ Len(g.st) = MaxOf(Len(s), i + 1)                          \* grows exactly to index + 1
       /\ g.calls = MaxOf(i + 1 - Len(s), 0)                        \* insert() once per new element
       /\ \A j \in Indices(s) : j # i + 1 => g.st[j] = s[j]          \* existing elements untouched
       /\ \A j \in (Len(s) + 1)..Len(g.st) : j # i + 1 => g.st[j] = gen(j - Len(s) - 1)
       /\ g.r = (IF i < Len(s) THEN s[i + 1] ELSE gen(i - Len(s))) /\ g.st[i + 1] = g.r + 7
       /\ IndexMapSubscriptR(s, i, 0).st = IndexMapGetR(s, i, LAMBDA j : 0, 0).st

(* laws over sets / maps *)
ExtensionSetLaws ==
  \A x \in 0..SetMax :
    LET ins == InsertSetR(a, x)
    IN /\ IsStrictlySorted(ins.st) /\ RangeOf(ins.st) = RangeOf(a) \cup {x}
       /\ (ins.r <=> ~ContainsKey(a, x)) /\ ~InsertSetR(ins.st, x).r /\ InsertSetR(ins.st, x).st = ins.st
       /\ FindElemR(0, a, x).pos = FindOpt(a, x)
ExtensionMapLaws ==
  \A x \in Dom :
    LET ins == InsertMapR(m, v, x)
    IN /\ IsMapSeq(ins.st) /\ Keys(ins.st) = Keys(m) \cup {v}
       /\ (ins.r <=> v \notin Keys(m))
       /\ FindOptMapped(ins.st, v) = (IF v \in Keys(m) THEN FindOptMapped(m, v) ELSE Some(x))
       /\ FindElemR(1, m, v).elem = (IF FindOptMapped(m, v) = None THEN None ELSE Some(<<v, FindOptMapped(m, v)[1]>>))
       /\ (FindElemR(1, m, v).pos # None <=> v \in Keys(m))

(* container::index_map as a state machine: state = the wrapped vector (variable s); every
   access either reads or grows it; old elements never change, the size never shrinks *)
IMMaxIdx == 3
InitIM == /\ s = <<>> /\ pt = <<FALSE, FALSE, FALSE>> /\ v = 0
          /\ a = <<>> /\ b = <<>> /\ c = <<>> /\ m = <<>> /\ ut = <<0, 0, 0>>
IMGet(i, t) == s' = IndexMapGetR(s, i, LAMBDA j : Ap(t, j % 3), 0).st
IMSubscript(i) == s' = IndexMapSubscriptR(s, i, 0).st
NextIM == /\ UNCHANGED <<pt, v, a, b, c, m, ut>>
          /\ \E i \in 0..IMMaxIdx : IMSubscript(i) \/ \E t \in UnaryTables : IMGet(i, t)
SpecIM == InitIM /\ [][NextIM]_vars
IMTypeOK == Len(s) <= IMMaxIdx + 1 /\ \A j \in Indices(s) : s[j] \in Dom
IMStep == Len(s') >= Len(s) /\ \A j \in Indices(s) : s'[j] = s[j]
IMMonotone == [][IMStep]_vars

----------------------------------------------------------------------------
(* defective definitions for the vacuity guards *)
SplitStringDropTrailing(q, d) ==      \* DESIGN 7: drop the trailing piece
  LET Pos == SortedSeqOf({i \in Indices(q) : q[i] = d})
      k == Len(Pos)
      lo(j) == IF j = 1 THEN 1 ELSE Pos[j - 1] + 1
      hi(j) == IF j = k + 1 THEN Len(q) ELSE Pos[j] - 1
      full == [j \in 1..(k + 1) |-> SubSeq(q, lo(j), hi(j))]
  IN IF Len(full) > 1 /\ full[Len(full)] = <<>> THEN Prefix(full, Len(full) - 1) ELSE full
BinarySearchNonSingular(q, x) ==      \* DESIGN 7: accept non-singular ranges
  IF Count(q, x) >= 1 THEN Some(LowerBound(q, x)) ELSE None
ReverseButLast(q) == IF Len(q) <= 2 THEN q ELSE <<q[Len(q)]>> \o SubSeq(q, 2, Len(q) - 1) \o <<q[1]>>
RemoveFirstOnly(q, x) ==
  LET i == FirstIdx(q, LAMBDA e : e = x) IN IF i <= Len(q) THEN SubSeq(q, 1, i - 1) \o SubSeq(q, i + 1, Len(q)) ELSE q
UniqueOnePass(q) == SubAt(q, {i \in Indices(q) : i = 1 \/ q[i - 1] # q[i] \/ (i > 2 /\ q[i - 2] = q[i])})
FoldBreakCallsLate(g(_, _), st0, q) ==      \* one call too many
  LET Fs == FoldBreakStates(g, st0, q)
      x == IF \E i \in Indices(q) : Fs[i][1]
           THEN CHOOSE i \in Indices(q) : Fs[i][1] /\ \A j \in 1..(i - 1) : ~Fs[j][1]
           ELSE Len(q)
  IN MinOf(x + 1, Len(q))
SetUnionConcat(x, y) == x \o SetDifference(y, x)
FindOptLast(q, x) ==
  IF Contains(q, x) THEN Some((CHOOSE i \in Indices(q) : q[i] = x /\ \A j \in (i + 1)..Len(q) : q[j] # x) - 1) ELSE None
JoinMapRightBiased(cs) ==
  LET ks == UNION {Keys(cs[i]) : i \in Indices(cs)}
      last(k) == CHOOSE i \in Indices(cs) : k \in Keys(cs[i]) /\ \A j \in (i + 1)..Len(cs) : k \notin Keys(cs[j])
  IN PairsSorted({<<k, cs[last(k)][Lookup(cs[last(k)], k)][2]>> : k \in ks})
ReverseRotate(q) == IF q = <<>> THEN q ELSE Tail(q) \o <<Head(q)>>
MapOptionalFirstOnly(f(_), q) == IF q = <<>> THEN <<>> ELSE f(q[1])
ArrayFromRangeAtLeast(n, q) == IF Len(q) >= n THEN Some(Prefix(q, n)) ELSE None
EqualCommonPrefix(q, r) == \A i \in 1..MinOf(Len(q), Len(r)) : q[i] = r[i]    \* std::equal without the second end
PopFrontRemovesBack(q) == [r |-> MaybeFront(q), st |-> IF q = <<>> THEN q ELSE SubSeq(q, 1, Len(q) - 1)]
SeqTextTrailingComma(q) == <<91>> \o Flatten([i \in Indices(q) |-> Digit(q[i]) \o <<44>>]) \o <<93>>
IndexMapGrowRefill(st, i, gen(_)) == IF i < Len(st) THEN st ELSE [j \in 1..(i + 1) |-> gen(j - 1)]
InsertMapOverwrites(mm, k, x) ==
  [r |-> k \notin Keys(mm), st |-> PairsSorted({mm[j] : j \in {jj \in Indices(mm) : mm[jj][1] # k}} \cup {<<k, x>>})]
InsertSetAlwaysTrue(q, x) == [r |-> TRUE, st |-> SortedSeqOf(RangeOf(q) \cup {x})]
AtOptionalOffByOne(q, i) == IF i >= 0 /\ i <= Len(q) /\ Len(q) > 0 THEN Some(q[MinOf(i + 1, Len(q))]) ELSE None
=============================================================================
