SPECIFICATION Spec
CONSTANTS
  R = 15
  L = 3
  NegLo = 1
  Hi = 2
  Wide = 8
  MaxSize = 6
  Bug = "none"
INVARIANTS LawBounds LawDecorated LawTransparent LawCursor LawContainer LawFactories LawEndsReached LawReadBack
PROPERTY LawCursorMonotone
CHECK_DEADLOCK FALSE
