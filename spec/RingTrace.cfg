SPECIFICATION TSpec
CONSTANTS
  NL = 3
  NE = 8
  AbsBug = "none"
  SigBug = "none"
  NB = 2
INVARIANT Verdict
CONSTRAINT Consumed
POSTCONDITION Post
CHECK_DEADLOCK FALSE
