SPECIFICATION Spec
CONSTANTS
  N = 3
  Bug = "none"
  Group = "ext"
  MaxLen = 0
INVARIANTS TypeOK LawAssign LawToException LawOutput LawConstruct
