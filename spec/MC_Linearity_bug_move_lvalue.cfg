SPECIFICATION Spec
CONSTANTS
  MaxObj = 4
  Allowed = {"move-from-lvalue-argument"}
  LCat = "lvalue"
INVARIANTS InvLvalueIntact
CHECK_DEADLOCK FALSE
