------------------------------ MODULE Ranges ------------------------------
(* Reference definitions for the ranges and iterators of property C18
   (written from the \brief texts of the headers):

   * make_int_range(b, e): "the forward integer range [b, e)", "if end <
     begin the range will be empty"; make_int_range_count(n) = [0, n);
     size() = number of elements when that number fits the range's own type;
   * enum ranges are closed: make_range_start_end(s, e) = [s, e],
     make_range_start(s) = [s, max], make_range<E>() = [min, max];
   * a cyclic iterator "cycles through a range": end() becomes begin() again;
   * the spiral range visits the lattice points within a Manhattan distance;
   * Moore / von Neumann neighbourhoods;
   * fcppt::iterator::range(b, e), make_range, adapt_range: the elements
     between two iterators.

   Pure operators only (the iterator machines are in IntIter.tla, Cyclic.tla
   and Spiral.tla, the judge of recorded calls in RangesJudge.tla). *)
EXTENDS Integers, Sequences, FiniteSets, TLC

Abs(x) == IF x < 0 THEN -x ELSE x

(* ---- integer types ----------------------------------------------------- *)
TypeNames == {"i8", "u8", "i16", "u16", "i32"}
TypeMin(T) == CASE T = "i8" -> -128 [] T = "u8" -> 0 [] T = "i16" -> -32768 [] T = "u16" -> 0 [] T = "i32" -> -2147483647 - 1
TypeMax(T) == CASE T = "i8" -> 127 [] T = "u8" -> 255 [] T = "i16" -> 32767 [] T = "u16" -> 65535 [] T = "i32" -> 2147483647
TypeVals(T) == TypeMin(T)..TypeMax(T)

(* ---- integer ranges ---------------------------------------------------- *)
(* the sequence b, b+1, .., e-1; nothing if e <= b *)
IntRange(b, e) == IF e <= b THEN <<>> ELSE [i \in 1..(e - b) |-> b + i - 1]
Count(b, e) == IF e <= b THEN 0 ELSE e - b
(* size() is only constrained when the number of elements fits the type *)
SizeConstrained(T, b, e) == Count(b, e) <= TypeMax(T)
SizeOk(T, b, e, s) == SizeConstrained(T, b, e) => s = Count(b, e)

(* closed enum range (precondition s <= e) *)
EnumRange(s, e) == [i \in 1..(e - s + 1) |-> s + i - 1]

(* ---- wide integers as limbs -------------------------------------------- *)
(* A value of a 32/64 bit type is logged "biased" (v - min of the type, an
   unsigned number that preserves the order) as a little-endian sequence of
   limbs in base 2^15 of fixed length. *)
Base == 32768
IsLimbs(x) == \A i \in 1..Len(x) : x[i] \in 0..(Base - 1)
RECURSIVE LimbSuccFrom(_, _)
LimbSuccFrom(x, i) ==
  IF i > Len(x) THEN x                                   \* overflow: wraps to 0 (never needed)
  ELSE IF x[i] < Base - 1 THEN [x EXCEPT ![i] = x[i] + 1]
  ELSE LimbSuccFrom([x EXCEPT ![i] = 0], i + 1)
LimbSucc(x) == LimbSuccFrom(x, 1)
(* a < b: the most significant differing limb decides *)
LimbLess(a, b) == \E i \in 1..Len(a) : a[i] < b[i] /\ \A j \in (i + 1)..Len(a) : a[j] = b[j]
(* s is the sequence b, b+1, .., e-1 (nothing if e <= b) *)
IsWideRange(s, b, e) ==
  IF ~LimbLess(b, e) THEN s = <<>>
  ELSE /\ Len(s) >= 1
       /\ s[1] = b
       /\ \A k \in 1..(Len(s) - 1) : s[k + 1] = LimbSucc(s[k])
       /\ LimbSucc(s[Len(s)]) = e
       /\ \A k \in 1..Len(s) : LimbLess(s[k], e)

(* ---- cyclic iterator ----------------------------------------------------- *)
(* positions are 0..len-1 *)
CycInc(i, len) == (i + 1) % len
CycDec(i, len) == (i + len - 1) % len
CycAdvance(i, n, len) == (i + n) % len         \* TLA+ % is the mathematical modulus (result in 0..len-1)
RECURSIVE CycSteps(_, _, _)
(* the positions after 1, 2, .., |n| single steps (forward if n >= 0, else backward) *)
CycSteps(i, n, len) ==
  IF n = 0 THEN <<>>
  ELSE LET j == IF n > 0 THEN CycInc(i, len) ELSE CycDec(i, len)
       IN <<j>> \o CycSteps(j, IF n > 0 THEN n - 1 ELSE n + 1, len)
Last(s, dflt) == IF s = <<>> THEN dflt ELSE s[Len(s)]

(* ---- lattice neighbourhoods ---------------------------------------------- *)
Manhattan(p, q) == Abs(p[1] - q[1]) + Abs(p[2] - q[2])
Square(o, d) == {<<o[1] + dx, o[2] + dy>> : dx \in -d..d, dy \in -d..d}
Disk(o, d) == {p \in Square(o, d) : Manhattan(p, o) <= d}
DiskSize(d) == 2 * d * d + 2 * d + 1
Neumann(p) == {q \in Disk(p, 1) : Manhattan(p, q) = 1}
Moore(p) == {<<p[1] + dx, p[2] + dy>> : dx \in -1..1, dy \in -1..1} \ {p}

SeqSet(s) == {s[k] : k \in 1..Len(s)}
Injective(s) == \A i, j \in 1..Len(s) : s[i] = s[j] => i = j

(* the spiral clause of the statement: every lattice point within distance d
   exactly once, in rings of non-decreasing distance *)
IsSpiralOf(v, o, d) ==
  /\ Injective(v)
  /\ SeqSet(v) = Disk(o, d)
  /\ \A k \in 1..(Len(v) - 1) : Manhattan(v[k], o) <= Manhattan(v[k + 1], o)
=============================================================================
