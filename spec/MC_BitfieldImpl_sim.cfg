SPECIFICATION ISpec
CONSTANTS
  N <- EnvN
  W <- EnvW
  Bug <- EnvBug
  FullOps <- EnvFull
VIEW IView
INVARIANTS ITypeOK Refines EqualSetsEqualWords ObserversAgree NoPadding UnderlyingAgrees ConstructorsAgree
CHECK_DEADLOCK FALSE
