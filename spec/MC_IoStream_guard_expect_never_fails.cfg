SPECIFICATION Spec
CONSTANTS
  MaxLen = 3
  MaxOps = 3
  Bug = "expect_never_fails"
INVARIANTS LawExtract
CHECK_DEADLOCK FALSE
