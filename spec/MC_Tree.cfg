SPECIFICATION Spec
CONSTANTS
  NS = 2
  Val = {0, 1}
  MaxNodes = 4
VIEW View
INVARIANTS TypeOK GeneratorSound Laws OpLaws
CHECK_DEADLOCK FALSE
