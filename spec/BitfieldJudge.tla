---------------------------- MODULE BitfieldJudge ----------------------------
(* Judge of the records written by harness/c10_bitfield.cpp from the real
   fcppt::container::bitfield operators.  The harness logs WHAT IT DID AND SAW
   (operands and results as the lists of enumerators for which get() returned
   true, the results of ==, !=, the two hash function objects, is_subset_eq);
   this module decides, with the set algebra of Bitfield.tla, whether each record
   is explained.  Reasons(r) = {} means explained.

   Conventions of the log
     n, w      enum size and storage word width of the instantiation
     sets      JSON arrays of enumerator values (as observed through get())
     K         [eq, ne, hash_eq, std_hash_eq, is_subset_eq(l,r), is_subset_eq(r,l)] as 0/1
     V         [v, c, K]: an observed value v, its canonical twin c (a bitfield
               built by init from v's own get() results), and K of (v, c) - this
               is the clause "two bitfields containing the same enumerators are
               equal and hash equally, however they were computed"
   Record kinds (field f): pair, rel, single, elem, build, tree, hist.
   Operator names: set (set(e,b)), idx (field[e] = b), ore (field | e), orae
   (field |= e), or/and/xor, ora/anda/xora (assigning forms), not, null, init,
   ilist, copy, assign, array (construction from the word array), swap.
   A reason is "<call whose result is not explained>/<what>@<where in the record>". *)
EXTENDS Naturals, Sequences, FiniteSets, TLC, RecordLoop

B(n) == INSTANCE Bitfield WITH N <- n

S(xs) == {xs[i] : i \in 1..Len(xs)}

If(c, reason) == IF c THEN {reason} ELSE {}

(* relations between two observed values a and b (sets).  The reason names the call
   whose returned value the specification cannot explain: "<call>/<what>" *)
RelReasons(at, a, b, k) ==
  If(a = b /\ k[1] = 0, "operator==/false-for-equal-sets@" \o at)
  \cup If(a # b /\ k[1] = 1, "operator==/true-for-different-sets@" \o at)
  \cup If(k[2] = k[1], "operator!=/not-the-negation-of-operator==@" \o at)
  \cup If(a = b /\ k[3] = 0, "hash/differs-for-equal-sets@" \o at)
  \cup If(a = b /\ k[4] = 0, "std_hash/differs-for-equal-sets@" \o at)
  \cup If((k[5] = 1) # (a \subseteq b), "is_subset_eq/wrong-result@" \o at)
  \cup If((k[6] = 1) # (b \subseteq a), "is_subset_eq/wrong-result@" \o at)

(* an observed result (field `at` of the record, produced by operator `tag`) against
   the value the specification defines, plus its relations with the canonical twin *)
VReasons(tag, at, v, expected) ==
  If(S(v[1]) # expected, tag \o "/contents@" \o at)
  \cup RelReasons(at, S(v[1]), S(v[2]), v[3])

InRange(n, xs) == \A i \in 1..Len(xs) : xs[i] \in 0..(n - 1)

(* ---- expression trees over the operators ---- *)
RECURSIVE Eval(_, _)
Eval(n, t) ==
  CASE t.o \in {"set", "init", "ilist"} -> B(n)!FromList(t.s)
    [] t.o = "null" -> B(n)!Null
    [] t.o = "not" -> B(n)!Not(Eval(n, t.x))
    [] t.o \in {"or", "ora"} -> B(n)!Or(Eval(n, t.l), Eval(n, t.r))
    [] t.o \in {"and", "anda"} -> B(n)!And(Eval(n, t.l), Eval(n, t.r))
    [] t.o \in {"xor", "xora"} -> B(n)!Xor(Eval(n, t.l), Eval(n, t.r))
    [] t.o \in {"sete", "idx"} -> B(n)!SetBit(Eval(n, t.x), t.e, t.b)
    [] t.o \in {"ore", "orae"} -> B(n)!SetBit(Eval(n, t.x), t.e, TRUE)

RECURSIVE TreeOK(_, _)
TreeOK(n, t) ==
  CASE t.o \in {"set", "init", "ilist"} -> InRange(n, t.s)
    [] t.o = "null" -> TRUE
    [] t.o = "not" -> TreeOK(n, t.x)
    [] t.o \in {"or", "ora", "and", "anda", "xor", "xora"} -> TreeOK(n, t.l) /\ TreeOK(n, t.r)
    [] t.o \in {"sete", "idx", "ore", "orae"} -> t.e \in 0..(n - 1) /\ TreeOK(n, t.x)
    [] OTHER -> FALSE

(* ---- record kinds ---- *)
PairReasons(r) ==
  LET a == S(r.a)
      b == S(r.b)
  IN VReasons("or", "or", r.or, B(r.n)!Or(a, b))
     \cup VReasons("and", "and", r.and, B(r.n)!And(a, b))
     \cup VReasons("xor", "xor", r.xor, B(r.n)!Xor(a, b))
     \cup VReasons("ora", "ora", r.ora, B(r.n)!Or(a, b))
     \cup VReasons("anda", "anda", r.anda, B(r.n)!And(a, b))
     \cup VReasons("xora", "xora", r.xora, B(r.n)!Xor(a, b))
     \cup RelReasons("rel", a, b, r.rel)
     \cup If(S(r.aa) # a, "operand/left-operand-of-value-operator-modified")
     \cup If(S(r.ba) # b, "operand/right-operand-modified")

RelRecReasons(r) == RelReasons("rel", S(r.a), S(r.b), r.rel)

SingleReasons(r) ==
  LET a == S(r.a) IN
  If(~TreeOK(r.n, r.t), "HARNESS-PRECONDITION")
  \cup (IF TreeOK(r.n, r.t) THEN If(a # Eval(r.n, r.t), r.t.o \o "/contents") ELSE {})
  \cup If(S(r.ai) # a, "index/differs-from-get")
  \cup If(S(r.ae) # a, "and_elem/differs-from-get")
  \cup VReasons(r.t.o, "can", r.can, a)
  \cup VReasons("not", "not", r.not, B(r.n)!Not(a))
  \cup VReasons("not", "notnot", r.notnot, a)
  \cup VReasons("ora", "sora", r.sora, a)
  \cup VReasons("anda", "sanda", r.sanda, a)
  \cup VReasons("xora", "sxora", r.sxora, {})
  \cup RelReasons("rel", a, a, r.rel)
  \cup If(S(r.aa) # a, "operand/left-operand-of-value-operator-modified")

ElemReasons(r) ==
  LET a == S(r.a)
      n == r.n
      e == r.e
      m == IF B(n)!Get(a, e) THEN 1 ELSE 0
  IN If(e \notin 0..(n - 1), "HARNESS-PRECONDITION")
     \cup VReasons("set", "set1", r.set1, B(n)!SetBit(a, e, TRUE))
     \cup VReasons("set", "set0", r.set0, B(n)!SetBit(a, e, FALSE))
     \cup VReasons("idx", "idx1", r.idx1, B(n)!SetBit(a, e, TRUE))
     \cup VReasons("idx", "idx0", r.idx0, B(n)!SetBit(a, e, FALSE))
     \cup VReasons("ore", "ore", r.ore, B(n)!SetBit(a, e, TRUE))
     \cup VReasons("orae", "orae", r.orae, B(n)!SetBit(a, e, TRUE))
     \cup If(r.g # m, "get/result")
     \cup If(r.ix # m, "index/result")
     \cup If(r.ixm # m, "index/result")
     \cup If(r.an # m, "and_elem/result")
     \cup If(S(r.aa) # a, "operand/left-operand-of-value-operator-modified")

BuildReasons(r) ==
  IF ~InRange(r.n, r.s) THEN {"HARNESS-PRECONDITION"}
  ELSE VReasons(r.how, "r", r.r, B(r.n)!FromList(r.s))

TreeReasons(r) ==
  IF ~(TreeOK(r.n, r.t) /\ TreeOK(r.n, r.u)) THEN {"HARNESS-PRECONDITION"}
  ELSE LET et == Eval(r.n, r.t)
           eu == Eval(r.n, r.u)
       IN VReasons(r.t.o, "r", r.r, et) \cup VReasons(r.u.o, "q", r.q, eu)
          \cup RelReasons("rel", S(r.r[1]), S(r.q[1]), r.rel)

(* histories of the register machine: ops[j] applied to the state logged at j-1
   (validation continues from the LOGGED state, so one defect does not hide the rest) *)
At(j, a) == "step-" \o ToString(j) \o ":" \o a.op
RECURSIVE HistFold(_, _, _, _, _)
HistFold(r, j, px, py, acc) ==
  IF j > Len(r.ops) THEN acc
  ELSE LET a == r.ops[j]
           o == r.obs[j]
           lx == S(o.x)
           ly == S(o.y)
       IN IF ~B(r.n)!Pre(a) THEN acc \cup {"HARNESS-PRECONDITION"}
          ELSE LET e == B(r.n)!Eff(px, py, a) IN
               HistFold(r, j + 1, lx, ly,
                 acc \cup If(lx # e.x, a.op \o "/contents@" \o At(j, a))
                     \cup If(ly # e.y, a.op \o "/other-register-contents@" \o At(j, a))
                     \cup If(S(o.xi) # lx, "index/differs-from-get@" \o At(j, a))
                     \cup If(S(o.rv) # e.x, a.op \o "/returned-value@" \o At(j, a))
                     \cup RelReasons(At(j, a), lx, ly, o.k))

HistReasons(r) ==
  IF Len(r.obs) # Len(r.ops) THEN {"HARNESS-PRECONDITION"}
  ELSE HistFold(r, 1, {}, {}, RelReasons("step-0:null", S(r.o0.x), S(r.o0.y), r.o0.k)
                              \cup If(S(r.o0.x) # {} \/ S(r.o0.y) # {}, "null/contents"))

BFReasons(r) ==
  CASE r.f = "pair" -> PairReasons(r)
    [] r.f = "rel" -> RelRecReasons(r)
    [] r.f = "single" -> SingleReasons(r)
    [] r.f = "elem" -> ElemReasons(r)
    [] r.f = "build" -> BuildReasons(r)
    [] r.f = "tree" -> TreeReasons(r)
    [] r.f = "hist" -> HistReasons(r)
    [] OTHER -> {"unknown-record-kind"}
=============================================================================
