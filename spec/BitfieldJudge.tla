---------------------------- MODULE BitfieldJudge ----------------------------
(* Judge of the records written by harness/c10_bitfield.cpp from the real
   fcppt::container::bitfield operators.  The harness logs WHAT IT DID AND SAW
   (operands and results as the lists of enumerators for which get() returned
   true, the results of ==, !=, the two hash function objects, is_subset_eq);
   this module decides, with the set algebra of Bitfield.tla, whether each record
   is explained.  Reasons(r) = {} means explained.

   Conventions of the log
     n, w      enum size and storage word width of the instantiation
     sets      JSON arrays of enumerator values (as observed through get())
     K         [eq, ne, hash_eq, std_hash_eq, is_subset_eq(l,r), is_subset_eq(r,l)] as 0/1
     V         [v, c, K]: an observed value v, its canonical twin c (a bitfield
               built by init from v's own get() results), and K of (v, c) - this
               is the clause "two bitfields containing the same enumerators are
               equal and hash equally, however they were computed"
   Record kinds (field f): pair, rel, single, elem, build, tree, hist, bits, proxy,
   histp (histories that assign one operator[] proxy to another) - inside the
   statement of C10 - and proxyx, out, buildx - OBSERVED ONLY, see InScope at the end.
   Subsets chosen by the generator are logged as element lists (ms, s), never as
   masks: enums have up to 65 enumerators here.
   Operator names: set (set(e,b)), idx (field[e] = b), ore (field | e), orae
   (field |= e), or/and/xor, ora/anda/xora (assigning forms), not, null, init,
   ilist, copy, assign, array (construction from the word array), swap.
   A reason is "<call whose result is not explained>/<what>@<where in the record>". *)
EXTENDS Naturals, Sequences, FiniteSets, TLC, RecordLoop

B(n) == INSTANCE Bitfield WITH N <- n

S(xs) == {xs[i] : i \in 1..Len(xs)}

If(c, reason) == IF c THEN {reason} ELSE {}

(* relations between two observed values a and b (sets).  The reason names the call
   whose returned value the specification cannot explain: "<call>/<what>" *)
RelReasons(at, a, b, k) ==
  If(a = b /\ k[1] = 0, "operator==/false-for-equal-sets@" \o at)
  \cup If(a # b /\ k[1] = 1, "operator==/true-for-different-sets@" \o at)
  \cup If(k[2] = k[1], "operator!=/not-the-negation-of-operator==@" \o at)
  \cup If(a = b /\ k[3] = 0, "hash/differs-for-equal-sets@" \o at)
  \cup If(a = b /\ k[4] = 0, "std_hash/differs-for-equal-sets@" \o at)
  \cup If((k[5] = 1) # (a \subseteq b), "is_subset_eq/wrong-result@" \o at)
  \cup If((k[6] = 1) # (b \subseteq a), "is_subset_eq/wrong-result@" \o at)

(* an observed result (field `at` of the record, produced by operator `tag`) against
   the value the specification defines, plus its relations with the canonical twin *)
VReasons(tag, at, v, expected) ==
  If(S(v[1]) # expected, tag \o "/contents@" \o at)
  \cup RelReasons(at, S(v[1]), S(v[2]), v[3])

InRange(n, xs) == \A i \in 1..Len(xs) : xs[i] \in 0..(n - 1)

(* ---- expression trees over the operators ---- *)
RECURSIVE Eval(_, _)
Eval(n, t) ==
  CASE t.o \in {"set", "init", "ilist"} -> B(n)!FromList(t.s)
    [] t.o = "null" -> B(n)!Null
    [] t.o = "not" -> B(n)!Not(Eval(n, t.x))
    [] t.o \in {"or", "ora"} -> B(n)!Or(Eval(n, t.l), Eval(n, t.r))
    [] t.o \in {"and", "anda"} -> B(n)!And(Eval(n, t.l), Eval(n, t.r))
    [] t.o \in {"xor", "xora"} -> B(n)!Xor(Eval(n, t.l), Eval(n, t.r))
    [] t.o \in {"sete", "idx"} -> B(n)!SetBit(Eval(n, t.x), t.e, t.b)
    [] t.o \in {"ore", "orae"} -> B(n)!SetBit(Eval(n, t.x), t.e, TRUE)

RECURSIVE TreeOK(_, _)
TreeOK(n, t) ==
  CASE t.o \in {"set", "init", "ilist"} -> InRange(n, t.s)
    [] t.o = "null" -> TRUE
    [] t.o = "not" -> TreeOK(n, t.x)
    [] t.o \in {"or", "ora", "and", "anda", "xor", "xora"} -> TreeOK(n, t.l) /\ TreeOK(n, t.r)
    [] t.o \in {"sete", "idx", "ore", "orae"} -> t.e \in 0..(n - 1) /\ TreeOK(n, t.x)
    [] OTHER -> FALSE

(* ---- record kinds ---- *)
PairReasons(r) ==
  LET a == S(r.a)
      b == S(r.b)
  IN VReasons("or", "or", r.or, B(r.n)!Or(a, b))
     \cup VReasons("and", "and", r.and, B(r.n)!And(a, b))
     \cup VReasons("xor", "xor", r.xor, B(r.n)!Xor(a, b))
     \cup VReasons("ora", "ora", r.ora, B(r.n)!Or(a, b))
     \cup VReasons("anda", "anda", r.anda, B(r.n)!And(a, b))
     \cup VReasons("xora", "xora", r.xora, B(r.n)!Xor(a, b))
     \cup RelReasons("rel", a, b, r.rel)
     \cup If(S(r.aa) # a, "operand/left-operand-of-value-operator-modified")
     \cup If(S(r.ba) # b, "operand/right-operand-modified")

RelRecReasons(r) == RelReasons("rel", S(r.a), S(r.b), r.rel)

SingleReasons(r) ==
  LET a == S(r.a) IN
  If(~TreeOK(r.n, r.t), "HARNESS-PRECONDITION")
  \cup (IF TreeOK(r.n, r.t) THEN If(a # Eval(r.n, r.t), r.t.o \o "/contents") ELSE {})
  \cup If(S(r.ai) # a, "index/differs-from-get")
  \cup If(S(r.ae) # a, "and_elem/differs-from-get")
  \cup VReasons(r.t.o, "can", r.can, a)
  \cup VReasons("not", "not", r.not, B(r.n)!Not(a))
  \cup VReasons("not", "notnot", r.notnot, a)
  \cup VReasons("ora", "sora", r.sora, a)
  \cup VReasons("anda", "sanda", r.sanda, a)
  \cup VReasons("xora", "sxora", r.sxora, {})
  \cup RelReasons("rel", a, a, r.rel)
  \cup If(S(r.aa) # a, "operand/left-operand-of-value-operator-modified")

ElemReasons(r) ==
  LET a == S(r.a)
      n == r.n
      e == r.e
      m == IF B(n)!Get(a, e) THEN 1 ELSE 0
  IN If(e \notin 0..(n - 1), "HARNESS-PRECONDITION")
     \cup VReasons("set", "set1", r.set1, B(n)!SetBit(a, e, TRUE))
     \cup VReasons("set", "set0", r.set0, B(n)!SetBit(a, e, FALSE))
     \cup VReasons("idx", "idx1", r.idx1, B(n)!SetBit(a, e, TRUE))
     \cup VReasons("idx", "idx0", r.idx0, B(n)!SetBit(a, e, FALSE))
     \cup VReasons("ore", "ore", r.ore, B(n)!SetBit(a, e, TRUE))
     \cup VReasons("orae", "orae", r.orae, B(n)!SetBit(a, e, TRUE))
     \cup If(r.g # m, "get/result")
     \cup If(r.ix # m, "index/result")
     \cup If(r.ixm # m, "index/result")
     \cup If(r.an # m, "and_elem/result")
     \cup If(S(r.aa) # a, "operand/left-operand-of-value-operator-modified")

(* assignment through operator[] from another operator[] proxy.  The statement of C10
   names operator[] ("set/get/operator[] ... all agree with ... set"), and
   object_decl.hpp calls the proxy "a reference to a mask value (a reference to a
   boolean, basically)": field[i] = field[j] assigns the BIT, chains work right to
   left, a named proxy keeps referring to its own enumerator.  cross: c[i] = d[j] between
   temporaries of two objects (move assignment), crossn: between named proxies of two
   objects (copy assignment), crossk: from a proxy of a const bitfield (conversion to
   bool, then operator=(bool)) *)
ProxyReasons(r) ==
  LET a == S(r.a)
      b == S(r.b)
      n == r.n
      i == r.i
      j == r.j
  IN IF ~(i \in 0..(n - 1) /\ j \in 0..(n - 1)) THEN {"HARNESS-PRECONDITION"}
     ELSE VReasons("proxy_copy_assign", "cp", r.cp, B(n)!SetBit(a, i, B(n)!Get(a, j)))
          \cup VReasons("proxy_chain", "ch1", r.ch1, B(n)!SetBit(B(n)!SetBit(a, j, TRUE), i, TRUE))
          \cup VReasons("proxy_chain", "ch0", r.ch0, B(n)!SetBit(B(n)!SetBit(a, j, FALSE), i, FALSE))
          \cup VReasons("proxy_copy_assign", "named", r.named, B(n)!SetBit(a, i, FALSE))
          \cup VReasons("proxy_move_assign", "mv", r.mv, B(n)!SetBit(a, i, B(n)!Get(a, j)))
          \cup VReasons("proxy_copy_assign", "cross", r.cross, B(n)!SetBit(a, i, B(n)!Get(b, j)))
          \cup If(S(r.crossb) # b, "operand/right-operand-modified")
          \cup VReasons("proxy_copy_assign", "crossn", r.crossn, B(n)!SetBit(a, i, B(n)!Get(b, j)))
          \cup If(S(r.crossnb) # b, "operand/right-operand-modified")
          \cup VReasons("idx", "crossk", r.crossk, B(n)!SetBit(a, i, B(n)!Get(b, j)))
          \cup If(S(r.aa) # a, "operand/left-operand-of-value-operator-modified")

(* details of the proxy type (OBSERVED ONLY): a copy of a proxy refers to the same bit,
   conversion of a const proxy to bool, operator=(bool) returns the proxy itself, the
   assigning operators return a reference to their left operand *)
ProxyXReasons(r) ==
  LET a == S(r.a)
      n == r.n
      i == r.i
      j == r.j
      B01(c) == IF c THEN 1 ELSE 0
  IN IF ~(i \in 0..(n - 1) /\ j \in 0..(n - 1)) THEN {"HARNESS-PRECONDITION"}
     ELSE VReasons("proxy_copy", "cpy", r.cpy, B(n)!SetBit(a, i, TRUE))
          \cup If(r.cpyr # 1, "proxy_copy/refers-to-another-bit@cpyr")
          \cup If(r.cc # B01(B(n)!Get(a, j)), "index/result@cc")
          \cup If(r.rs # 1 \/ r.rs2 # 1, "idx/returns-another-object@rs")
          \cup VReasons("idx", "rsv", r.rsv, B(n)!SetBit(a, i, FALSE))
          \cup If(r.rid[1] # 1, "ora/returns-another-object@rid")
          \cup If(r.rid[2] # 1, "anda/returns-another-object@rid")
          \cup If(r.rid[3] # 1, "xora/returns-another-object@rid")
          \cup If(r.rid[4] # 1, "orae/returns-another-object@rid")
          \cup If(S(r.aa) # a, "operand/left-operand-of-value-operator-modified")

(* operator<<, underlying_value, construction from the storage word.  Words are logged
   as four 16-bit limbs (TLC integers are 32-bit; single-word bitfields hold up to 64
   enumerators): limb k (1..4) carries the enumerators 16(k-1) .. 16k-1 *)
NameOf(e) == IF e < 10 THEN <<118, 48 + e>> ELSE <<118, 48 + (e \div 10), 48 + (e % 10)>>
LimbsOf(n, a) == [k \in 1..4 |-> B(n)!Underlying({e - 16 * (k - 1) : e \in {x \in a : x \div 16 = k - 1}})]
FromLimbs(n, v) == {e \in 0..(n - 1) : (v[(e \div 16) + 1] \div (2 ^ (e % 16))) % 2 = 1}
OutReasons(r) ==
  LET a == S(r.a)
      n == r.n
      txt == B(n)!Output(a, [k \in 1..n |-> NameOf(k - 1)])
  IN If(r.s # txt, "output/text@s")
     \cup If(r.ws # txt, "output/text@ws")
     \cup If(r.good # 1, "output/stream-state@good")
     \cup (IF r.uv = <<>> THEN {}
           ELSE If(r.uv # LimbsOf(n, a), "underlying_value/result@uv")
                \cup VReasons("array", "uvb", r.uvb, a)
                \cup (IF Len(r.arg) # 4 \/ LimbsOf(n, FromLimbs(n, r.arg)) # r.arg THEN {"HARNESS-PRECONDITION"}
                      ELSE VReasons("array", "from", r.from, FromLimbs(n, r.arg))))

(* every single-enumerator operation of one subset (built with field[e] = true) *)
BitsReasons(r) ==
  LET n == r.n
      a == S(r.ms)
  IN If(~InRange(n, r.ms), "HARNESS-PRECONDITION")
     \cup If(S(r.a) # a, "idx/contents@a")
     \cup If(S(r.ai) # S(r.a), "index/differs-from-get")
     \cup If(\E e \in 0..(n - 1) : S(r.s1[e + 1]) # B(n)!SetBit(a, e, TRUE), "set/contents@s1")
     \cup If(\E e \in 0..(n - 1) : S(r.s0[e + 1]) # B(n)!SetBit(a, e, FALSE), "idx/contents@s0")
     \cup If(\E e \in 0..(n - 1) : S(r.or1[e + 1]) # B(n)!SetBit(a, e, TRUE), "ore/contents@or1")
     \cup VReasons("not", "nt", r.nt, B(n)!Not(a))

BuildReasons(r) ==
  IF ~InRange(r.n, r.s) THEN {"HARNESS-PRECONDITION"}
  ELSE VReasons(r.how, "r", r.r, B(r.n)!FromList(r.s))

TreeReasons(r) ==
  IF ~(TreeOK(r.n, r.t) /\ TreeOK(r.n, r.u)) THEN {"HARNESS-PRECONDITION"}
  ELSE LET et == Eval(r.n, r.t)
           eu == Eval(r.n, r.u)
       IN VReasons(r.t.o, "r", r.r, et) \cup VReasons(r.u.o, "q", r.q, eu)
          \cup RelReasons("rel", S(r.r[1]), S(r.q[1]), r.rel)

(* histories of the register machine: ops[j] applied to the state logged at j-1
   (validation continues from the LOGGED state, so one defect does not hide the rest) *)
At(j, a) == "step-" \o ToString(j) \o ":" \o a.op
RECURSIVE HistFold(_, _, _, _, _)
HistFold(r, j, px, py, acc) ==
  IF j > Len(r.ops) THEN acc
  ELSE LET a == r.ops[j]
           o == r.obs[j]
           lx == S(o.x)
           ly == S(o.y)
       IN IF ~B(r.n)!Pre(a) THEN acc \cup {"HARNESS-PRECONDITION"}
          ELSE LET e == B(r.n)!Eff(px, py, a) IN
               HistFold(r, j + 1, lx, ly,
                 acc \cup If(lx # e.x, a.op \o "/contents@" \o At(j, a))
                     \cup If(ly # e.y, a.op \o "/other-register-contents@" \o At(j, a))
                     \cup If(S(o.xi) # lx, "index/differs-from-get@" \o At(j, a))
                     \cup If(S(o.rv) # e.x, a.op \o "/returned-value@" \o At(j, a))
                     \cup RelReasons(At(j, a), lx, ly, o.k))

HistReasons(r) ==
  IF Len(r.obs) # Len(r.ops) THEN {"HARNESS-PRECONDITION"}
  ELSE HistFold(r, 1, {}, {}, RelReasons("step-0:null", S(r.o0.x), S(r.o0.y), r.o0.k)
                              \cup If(S(r.o0.x) # {} \/ S(r.o0.y) # {}, "null/contents"))

BFReasons(r) ==
  CASE r.f = "pair" -> PairReasons(r)
    [] r.f = "rel" -> RelRecReasons(r)
    [] r.f = "single" -> SingleReasons(r)
    [] r.f = "elem" -> ElemReasons(r)
    [] r.f \in {"build", "buildx"} -> BuildReasons(r)
    [] r.f = "tree" -> TreeReasons(r)
    [] r.f \in {"hist", "histp"} -> HistReasons(r)
    [] r.f = "proxy" -> ProxyReasons(r)
    [] r.f = "proxyx" -> ProxyXReasons(r)
    [] r.f = "out" -> OutReasons(r)
    [] r.f = "bits" -> BitsReasons(r)
    [] OTHER -> {"unknown-record-kind"}

(* Scope (docs/EXTENSION_BRIEF.md, "stay inside the property's statement"): a rejected
   record of a kind listed here may become a VIOLATION of C10; the other kinds are
   judged and counted but only reported as observations.
     pair, rel, tree, hist  "the operators |, &, ^, ~ and their assigning forms,
                            is_subset_eq, ==, != and hash all agree with union, ..."
     single, elem, bits     "set/get/operator[]", "~ ... complement relative to the enum"
     build                  "construction from an initializer list and init"; copies and copy
                            assignment only carry values ("two bitfields containing the same
                            enumerators are equal and hash equally, however they were computed")
     proxy, histp           "set/get/operator[] ... all agree with ..." - assignment THROUGH
                            operator[] from another operator[] proxy (field[a] = field[b],
                            field[a] = field[b] = true); object_decl.hpp: the proxy is "a reference to
                            a mask value (a reference to a boolean, basically)".  Decision of the
                            coordinator; defect repaired in /repo by 506c999.
   Not covered by the statement (observed only): proxyx (a copy of a proxy, const proxy
   conversion, identity of the references returned by operator=(bool) and by the
   assigning operators), out (operator<<, underlying_value, construction from a word),
   buildx (construction from array() of another bitfield, initialisation from an
   fcppt::enum_::array<E,bool>).  The observed-only kinds are recorded by separate
   executables (harness/c10_bitfield_x*.cpp). *)
InScope == {"pair", "rel", "single", "elem", "build", "tree", "hist", "bits", "proxy", "histp"}
=============================================================================
