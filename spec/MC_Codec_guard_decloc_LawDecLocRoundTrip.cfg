SPECIFICATION Spec
CONSTANTS
  Mode = "dec"
  Step = 257
  DecRange = 200
  U8 <- Utf8
  WR <- Write
  TD <- ToDec
  NT <- NumText
  NTL <- NumTextLocBug
  CV <- Convert
  RV <- ReadVec
INVARIANTS LawDecLocRoundTrip
CHECK_DEADLOCK FALSE
