SPECIFICATION Spec
CONSTANTS
  NO = 2
  NS = 2
  NW = 2
  NU = 2
  Bug = "none"
VIEW View
INVARIANTS AliveIffOwned CountAgrees
CONSTRAINT EmitScripts
CHECK_DEADLOCK FALSE
