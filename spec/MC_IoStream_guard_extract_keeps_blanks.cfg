SPECIFICATION Spec
CONSTANTS
  MaxLen = 3
  MaxOps = 3
  Bug = "extract_keeps_blanks"
INVARIANTS LawExtract
CHECK_DEADLOCK FALSE
