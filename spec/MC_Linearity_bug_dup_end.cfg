SPECIFICATION Spec
CONSTANTS
  MaxObj = 4
  Allowed = {"copy-of-rvalue-element", "rvalue-element-duplicated"}
  LCat = "lvalue"
INVARIANTS InvEndImplied
CHECK_DEADLOCK FALSE
