SPECIFICATION Spec
CONSTANTS
  MaxLen = 6
  MaxN = 20
  NoFixBug = FALSE
  StepBug = TRUE
INVARIANTS PostLaw
