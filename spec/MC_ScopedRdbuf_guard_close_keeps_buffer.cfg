SPECIFICATION Spec
CONSTANTS
  NB = 2
  MaxOps = 5
  Bug = "close_keeps_buffer"
INVARIANTS LawRestored
CHECK_DEADLOCK FALSE
