SPECIFICATION Spec
CONSTANTS
  Mode = "utf8"
  Step = 17
  DecRange = 70000
  U8 <- Utf8
  WR <- Write
  TD <- ToDec
  NT <- NumText
  NTL <- NumTextLoc
  CV <- Convert
  RV <- ReadVec
INVARIANTS LawUtf8RoundTrip LawUtf8Shape LawUtf8Truncated LawUtf8Pairs
CHECK_DEADLOCK FALSE
