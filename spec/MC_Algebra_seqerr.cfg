SPECIFICATION Spec
CONSTANTS
  N = 3
  Bug = "none"
  Group = "seqerr"
  MaxLen = 4
INVARIANTS TypeOK LawSequenceError
