SPECIFICATION Spec
CONSTANTS
  Base <- SmallBase
  N = 24
  BreakSub = FALSE
INVARIANTS NatLaws ZLaws BoundLaws WideLaws
CHECK_DEADLOCK FALSE
