SPECIFICATION Spec
CONSTANTS
  LimbBits <- SmallLimbBits
  N = 24
  BreakSub = FALSE
INVARIANTS NatLaws ZLaws BoundLaws WideLaws
CHECK_DEADLOCK FALSE
