---------------------------- MODULE AlgebraJudge ----------------------------
(* C04 - judge of the call records written by harness/c04_algebra.cpp.  One record per call
   of a real fcppt combinator:
     f      name of the combinator            a      its value arguments (model encoding)
     tf,tg  the continuation tables used      d      value returned by a nullary continuation
     i      alternative index (variant)       cat    value categories of the arguments
     res    what the real combinator returned
     calls  the continuation invocations the harness's lambdas logged, in order
   The record is explained iff res equals the model's result and calls equals the model's
   predicted call sequence.  Where the documentation does not fix an order the comparison is
   weaker: either::first_success - multiset; either::loop - per continuation the same calls in
   the same order (the interleaving of _next and _loop is left open). *)
EXTENDS Algebra, RecordLoop

Predict(r) ==
  CASE r.f = "opt_maybe"        -> OptMaybe(r.a[1], r.d, r.tf)
    [] r.f = "opt_maybe_void"   -> OptMaybeVoid(r.a[1])
    [] r.f = "opt_map"          -> OptMap(r.a[1], r.tf)
    [] r.f = "opt_bind"         -> OptBind(r.a[1], r.tf)
    [] r.f = "monad_bind_opt"   -> OptBind(r.a[1], r.tf)
    [] r.f = "opt_join"         -> OptJoin(r.a[1])
    [] r.f = "opt_apply"        -> OptApply(r.tf, r.a)
    [] r.f = "opt_filter"       -> OptFilter(r.a[1], r.tf)
    [] r.f = "opt_alternative"  -> OptAlternative(r.a[1], r.d)
    [] r.f = "opt_combine"      -> OptCombine(r.a[1], r.a[2], r.tf)
    [] r.f = "opt_cat"          -> OptCat(r.a[1])
    [] r.f = "opt_sequence"     -> OptSequence(r.a[1])
    [] r.f = "opt_from"         -> OptFrom(r.a[1], r.d)
    [] r.f = "opt_maybe_multi"  -> OptMaybeMulti(r.d, r.tf, r.a)
    [] r.f = "opt_make_if"      -> OptMakeIf(r.a[1], r.d)
    [] r.f = "opt_eq"           -> OptEq(r.a[1], r.a[2])
    [] r.f = "opt_ne"           -> OptNe(r.a[1], r.a[2])
    [] r.f = "opt_less"         -> OptLess(r.a[1], r.a[2])
    [] r.f = "eit_match"        -> EitMatch(r.a[1], r.tf, r.tg)
    [] r.f = "eit_map"          -> EitMap(r.a[1], r.tf)
    [] r.f = "eit_map_failure"  -> EitMapFailure(r.a[1], r.tf)
    [] r.f = "eit_bind"         -> EitBind(r.a[1], r.tf)
    [] r.f = "monad_bind_eit"   -> EitBind(r.a[1], r.tf)
    [] r.f = "eit_join"         -> EitJoin(r.a[1])
    [] r.f = "eit_apply"        -> EitApply(r.tf, r.a)
    [] r.f = "eit_sequence"     -> EitSequence(r.a[1])
    [] r.f = "eit_first_success" -> EitFirstSuccess(r.a[1])
    [] r.f = "eit_loop"         -> EitLoop(r.a[1])
    [] r.f = "eit_from_optional" -> EitFromOptional(r.a[1], r.d)
    [] r.f = "eit_try_call"     -> EitTryCall(r.a[1], r.tf)
    [] r.f = "eit_success_opt"  -> EitSuccessOpt(r.a[1])
    [] r.f = "eit_failure_opt"  -> EitFailureOpt(r.a[1])
    [] r.f = "eit_eq"           -> EitEq(r.a[1], r.a[2])
    [] r.f = "eit_ne"           -> EitNe(r.a[1], r.a[2])
    [] r.f = "var_match"        -> VarMatch(r.a[1], r.tf)
    [] r.f = "var_apply"        -> VarApply(r.tf, r.a)
    [] r.f = "var_to_optional"  -> VarToOptional(r.i, r.a[1])
    [] r.f = "var_holds_type"   -> VarHoldsType(r.i, r.a[1])
    [] r.f = "var_compare"      -> VarCompare(r.a[1], r.a[2], r.tf)
    [] r.f = "var_eq"           -> VarEq(r.a[1], r.a[2])
    [] r.f = "var_ne"           -> VarNe(r.a[1], r.a[2])
    [] r.f = "var_less"         -> VarLess(r.a[1], r.a[2])
    \* extension round
    [] r.f = "opt_from_pointer" -> OptFromPointer(r.a[1])
    [] r.f = "opt_to_pointer"   -> OptToPointer(r.a[1])
    [] r.f = "opt_copy_value"   -> OptCopyValue(r.st, r.a[1])
    [] r.f = "opt_deref"        -> OptDeref(r.a[1])
    [] r.f = "opt_ref_write"    -> OptRefWrite(r.st, r.a[1], r.d)
    [] r.f = "opt_value_copy_write" -> OptValueCopyWrite(r.a[1], r.d)
    [] r.f = "opt_assign"       -> OptAssign(r.a[1], r.x, r.d)
    [] r.f = "opt_nothing"      -> OptNothing
    [] r.f = "opt_make"         -> OptMake(r.a[1])
    [] r.f = "opt_to_exception" -> OptToException(r.a[1], r.d)
    [] r.f = "opt_output"       -> OptOutput(r.a[1])
    [] r.f = "optopt_output"    -> OptOptOutput(r.a[1])
    [] r.f = "eit_construct"    -> EitConstruct(r.a[1], r.x, r.d)
    [] r.f = "eit_error_from_optional" -> EitErrorFromOptional(r.a[1])
    [] r.f = "eit_make_success" -> EitMakeSuccess(r.a[1])
    [] r.f = "eit_make_failure" -> EitMakeFailure(r.a[1])
    [] r.f = "eit_to_exception" -> EitToException(r.a[1], r.tf)
    [] r.f = "eit_output"       -> EitOutput(r.a[1])
    [] r.f = "eit_sequence_error" -> EitSequenceError(r.a[1], r.tf)
    [] r.f = "var_assign"       -> VarAssign(r.a[1], r.a[2])
    [] r.f = "var_assign_src"   -> VarAssignSrc(r.a[1], r.a[2])
    [] r.f = "var_index"        -> VarIndex(r.a[1])
    [] r.f = "var_get"          -> VarGet(r.a[1])
    [] r.f = "var_ref_write"    -> VarRefWrite(r.i, r.a[1], r.d)
    [] r.f = "var_dynamic_cast" -> VarDynamicCast(r.types, {r.castable[k] : k \in DOMAIN r.castable})
    [] r.f = "var_output"       -> VarOutput(r.a[1])
    [] r.f = "monad_chain_opt"  -> OptChain(r.a[1], r.tf)
    [] r.f = "monad_chain_eit"  -> EitChain(r.a[1], r.tf)
    [] r.f = "monad_do_opt"     -> OptDo(r.a[1], r.tf)
    [] r.f = "monad_do_eit"     -> EitDo(r.a[1], r.tf)
    [] r.f = "monad_return_opt" -> MonadReturnOpt(r.a[1])
    [] r.f = "monad_return_eit" -> MonadReturnEit(r.a[1])

Known == {"opt_maybe", "opt_maybe_void", "opt_map", "opt_bind", "monad_bind_opt", "opt_join",
          "opt_apply", "opt_filter", "opt_alternative", "opt_combine", "opt_cat", "opt_sequence",
          "opt_from", "opt_maybe_multi", "opt_make_if", "opt_eq", "opt_ne", "opt_less",
          "eit_match", "eit_map", "eit_map_failure", "eit_bind", "monad_bind_eit", "eit_join",
          "eit_apply", "eit_sequence", "eit_first_success", "eit_loop", "eit_from_optional",
          "eit_try_call", "eit_success_opt", "eit_failure_opt", "eit_eq", "eit_ne",
          "var_match", "var_apply", "var_to_optional", "var_holds_type", "var_compare",
          "var_eq", "var_ne", "var_less",
          "opt_from_pointer", "opt_to_pointer", "opt_copy_value", "opt_deref", "opt_ref_write",
          "opt_value_copy_write", "opt_assign", "opt_nothing", "opt_make", "opt_to_exception",
          "opt_output", "optopt_output", "eit_construct", "eit_error_from_optional",
          "eit_make_success", "eit_make_failure", "eit_to_exception", "eit_output",
          "eit_sequence_error", "var_assign", "var_assign_src", "var_index", "var_get",
          "var_ref_write", "var_dynamic_cast", "var_output",
          "monad_chain_opt", "monad_chain_eit", "monad_do_opt", "monad_do_eit",
          "monad_return_opt", "monad_return_eit"}

(* Scope.  A record kind is IN SCOPE iff the statement of C04 (properties.jsonl) covers it; only those may
   lead to a VIOLATION.  Every other kind is judged in exactly the same way but a disagreement is tagged
   OBSERVED-ONLY and is reported by the check as an observation (evidence coverage.observations), never
   as a violation.  In scope, with the clause of the statement:
     "map/bind/join/apply obey the functor, applicative and monad laws"
         opt_map opt_bind monad_bind_opt opt_join opt_apply eit_map eit_map_failure eit_bind
         monad_bind_eit eit_join eit_apply var_apply          (monad/bind.hpp is an anchor)
     "maybe/from/match select the branch of the held alternative and invoke exactly that
      continuation exactly once"
         opt_maybe opt_maybe_void opt_maybe_multi opt_from eit_match eit_from_optional var_match
     "filter/alternative/combine/cat/sequence/first_success/loop/try_call return what their
      documentation states"
         opt_filter opt_alternative opt_combine opt_cat opt_sequence eit_sequence
         eit_first_success eit_loop eit_try_call opt_make_if (anchor make_if.hpp)
     "the optional, either and variant operations agree with the tagged-union model" together with
     the anchors comparison.hpp / compare.hpp / holds_type.hpp / to_optional.hpp / success_opt.hpp /
     failure_opt.hpp
         opt_eq opt_ne opt_less eit_eq eit_ne eit_success_opt eit_failure_opt var_to_optional
         var_holds_type var_compare var_eq var_ne var_less
   (records of these kinds over the 4-alternative variant are the same kinds at a deeper bound).
   Round 3 audit - promoted, with the clause:
     "the optional, either and variant operations agree with the tagged-union model", anchor
     variant/object_impl.hpp (type_index, is_invalid, get_unsafe are defined there; the tag of the
     tagged union IS type_index(), comparison.hpp states operator< in terms of it)
         var_index var_get
     the same clause with the anchors variant/object_impl.hpp (converting constructor) and
     holds_type.hpp ("The currently held type of a variant is the type passed to its constructor or
     assignment operator"): after v = w / V{std::move(w)} the target holds w's alternative and value
         var_assign          (the index a moved-from SOURCE reports, var_assign_src, stays observed)
   Everything else added in the extension round (pointers / references / value copies / assign / nothing / make /
   to_exception / output, either construct / error_from_optional / make_* / to_exception /
   sequence_error / output, variant to_optional_ref / dynamic_cast_ / output, the index of a
   moved-from variant, monad chain / do_ / return_) is not named by the statement: observed only. *)
InScope == {"opt_maybe", "opt_maybe_void", "opt_map", "opt_bind", "monad_bind_opt", "opt_join",
            "opt_apply", "opt_filter", "opt_alternative", "opt_combine", "opt_cat", "opt_sequence",
            "opt_from", "opt_maybe_multi", "opt_make_if", "opt_eq", "opt_ne", "opt_less",
            "eit_match", "eit_map", "eit_map_failure", "eit_bind", "monad_bind_eit", "eit_join",
            "eit_apply", "eit_sequence", "eit_first_success", "eit_loop", "eit_from_optional",
            "eit_try_call", "eit_success_opt", "eit_failure_opt", "eit_eq", "eit_ne",
            "var_match", "var_apply", "var_to_optional", "var_holds_type", "var_compare",
            "var_eq", "var_ne", "var_less",
            "var_index", "var_get", "var_assign"}

CallsOK(r, p) ==
  IF r.f = "eit_first_success" THEN BagCallsEq(p.calls, r.calls)
  ELSE IF r.f = "eit_loop" THEN ProjCallsEq(p.calls, r.calls)
  ELSE SeqCallsEq(p.calls, r.calls)

AlgReasons(r) ==
  IF r.f \notin Known THEN {"HARNESS-unknown-combinator"}
  ELSE IF r.f = "eit_loop" /\ ~EitLoopPre(r.a[1]) THEN {"HARNESS-PRECONDITION"}
  ELSE LET p == Predict(r)
           w == (IF p.res = r.res THEN {} ELSE {"result"}) \cup (IF CallsOK(r, p) THEN {} ELSE {"calls"})
       IN IF w # {} /\ r.f \notin InScope THEN w \cup {"OBSERVED-ONLY"} ELSE w
=============================================================================
