---------------------------- MODULE AlgebraJudge ----------------------------
(* C04 - judge of the call records written by harness/c04_algebra.cpp.  One record per call
   of a real fcppt combinator:
     f      name of the combinator            a      its value arguments (model encoding)
     tf,tg  the continuation tables used      d      value returned by a nullary continuation
     i      alternative index (variant)       cat    value categories of the arguments
     res    what the real combinator returned
     calls  the continuation invocations the harness's lambdas logged, in order
   The record is explained iff res equals the model's result and calls equals the model's
   predicted call sequence.  Where the documentation does not fix an order the comparison is
   weaker: either::first_success - multiset; either::loop - per continuation the same calls in
   the same order (the interleaving of _next and _loop is left open). *)
EXTENDS Algebra, RecordLoop

Predict(r) ==
  CASE r.f = "opt_maybe"        -> OptMaybe(r.a[1], r.d, r.tf)
    [] r.f = "opt_maybe_void"   -> OptMaybeVoid(r.a[1])
    [] r.f = "opt_map"          -> OptMap(r.a[1], r.tf)
    [] r.f = "opt_bind"         -> OptBind(r.a[1], r.tf)
    [] r.f = "monad_bind_opt"   -> OptBind(r.a[1], r.tf)
    [] r.f = "opt_join"         -> OptJoin(r.a[1])
    [] r.f = "opt_apply"        -> OptApply(r.tf, r.a)
    [] r.f = "opt_filter"       -> OptFilter(r.a[1], r.tf)
    [] r.f = "opt_alternative"  -> OptAlternative(r.a[1], r.d)
    [] r.f = "opt_combine"      -> OptCombine(r.a[1], r.a[2], r.tf)
    [] r.f = "opt_cat"          -> OptCat(r.a[1])
    [] r.f = "opt_sequence"     -> OptSequence(r.a[1])
    [] r.f = "opt_from"         -> OptFrom(r.a[1], r.d)
    [] r.f = "opt_maybe_multi"  -> OptMaybeMulti(r.d, r.tf, r.a)
    [] r.f = "opt_make_if"      -> OptMakeIf(r.a[1], r.d)
    [] r.f = "opt_eq"           -> OptEq(r.a[1], r.a[2])
    [] r.f = "opt_ne"           -> OptNe(r.a[1], r.a[2])
    [] r.f = "opt_less"         -> OptLess(r.a[1], r.a[2])
    [] r.f = "eit_match"        -> EitMatch(r.a[1], r.tf, r.tg)
    [] r.f = "eit_map"          -> EitMap(r.a[1], r.tf)
    [] r.f = "eit_map_failure"  -> EitMapFailure(r.a[1], r.tf)
    [] r.f = "eit_bind"         -> EitBind(r.a[1], r.tf)
    [] r.f = "monad_bind_eit"   -> EitBind(r.a[1], r.tf)
    [] r.f = "eit_join"         -> EitJoin(r.a[1])
    [] r.f = "eit_apply"        -> EitApply(r.tf, r.a)
    [] r.f = "eit_sequence"     -> EitSequence(r.a[1])
    [] r.f = "eit_first_success" -> EitFirstSuccess(r.a[1])
    [] r.f = "eit_loop"         -> EitLoop(r.a[1])
    [] r.f = "eit_from_optional" -> EitFromOptional(r.a[1], r.d)
    [] r.f = "eit_try_call"     -> EitTryCall(r.a[1], r.tf)
    [] r.f = "eit_success_opt"  -> EitSuccessOpt(r.a[1])
    [] r.f = "eit_failure_opt"  -> EitFailureOpt(r.a[1])
    [] r.f = "eit_eq"           -> EitEq(r.a[1], r.a[2])
    [] r.f = "eit_ne"           -> EitNe(r.a[1], r.a[2])
    [] r.f = "var_match"        -> VarMatch(r.a[1], r.tf)
    [] r.f = "var_apply"        -> VarApply(r.tf, r.a)
    [] r.f = "var_to_optional"  -> VarToOptional(r.i, r.a[1])
    [] r.f = "var_holds_type"   -> VarHoldsType(r.i, r.a[1])
    [] r.f = "var_compare"      -> VarCompare(r.a[1], r.a[2], r.tf)
    [] r.f = "var_eq"           -> VarEq(r.a[1], r.a[2])
    [] r.f = "var_ne"           -> VarNe(r.a[1], r.a[2])
    [] r.f = "var_less"         -> VarLess(r.a[1], r.a[2])

Known == {"opt_maybe", "opt_maybe_void", "opt_map", "opt_bind", "monad_bind_opt", "opt_join",
          "opt_apply", "opt_filter", "opt_alternative", "opt_combine", "opt_cat", "opt_sequence",
          "opt_from", "opt_maybe_multi", "opt_make_if", "opt_eq", "opt_ne", "opt_less",
          "eit_match", "eit_map", "eit_map_failure", "eit_bind", "monad_bind_eit", "eit_join",
          "eit_apply", "eit_sequence", "eit_first_success", "eit_loop", "eit_from_optional",
          "eit_try_call", "eit_success_opt", "eit_failure_opt", "eit_eq", "eit_ne",
          "var_match", "var_apply", "var_to_optional", "var_holds_type", "var_compare",
          "var_eq", "var_ne", "var_less"}

CallsOK(r, p) ==
  IF r.f = "eit_first_success" THEN BagCallsEq(p.calls, r.calls)
  ELSE IF r.f = "eit_loop" THEN ProjCallsEq(p.calls, r.calls)
  ELSE SeqCallsEq(p.calls, r.calls)

AlgReasons(r) ==
  IF r.f \notin Known THEN {"HARNESS-unknown-combinator"}
  ELSE IF r.f = "eit_loop" /\ ~EitLoopPre(r.a[1]) THEN {"HARNESS-PRECONDITION"}
  ELSE LET p == Predict(r) IN
       (IF p.res = r.res THEN {} ELSE {"result"})
       \cup (IF CallsOK(r, p) THEN {} ELSE {"calls"})
=============================================================================
