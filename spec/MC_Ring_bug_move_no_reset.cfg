SPECIFICATION RSpec
CONSTANTS
  NL = 1
  NE = 2
  AbsBug = "none"
  BugAssignEmpty = FALSE
  BugMoveUnlinked = FALSE
  BugDtorOneSided = FALSE
  BugMoveNoReset = TRUE
  BugListMoveCtor = FALSE
  WithIter = FALSE
VIEW RView
INVARIANTS RingOK
CHECK_DEADLOCK FALSE
