-------------------------- MODULE TruncDivProof --------------------------
(* Unbounded complement to the bounded TLC law TruncLaw of IntMathLaws.tla: the
   closed form TruncQ (the quotient of C++ integer division, used by the judge of
   C06 for math::div) satisfies its defining property IsTrunc for ALL integers a
   and all non-zero integers b.  Definitions copied verbatim from spec/IntMath.tla
   and spec/FixedWidth.tla.  Checked with  tlapm spec/proofs/TruncDivProof.tla  *)
EXTENDS Integers, TLAPS

Abs(x) == IF x < 0 THEN -x ELSE x
IsTrunc(a, b, q) ==
  /\ Abs(q) * Abs(b) <= Abs(a) /\ Abs(a) < (Abs(q) + 1) * Abs(b)
  /\ (q > 0 => (a > 0) = (b > 0))
  /\ (q < 0 => (a > 0) # (b > 0))
TruncQ(a, b) == LET m == Abs(a) \div Abs(b) IN IF (a < 0) = (b < 0) THEN m ELSE -m

LEMMA DivMod ==
  ASSUME NEW x \in Int, NEW d \in Int, d > 0
  PROVE  /\ x = d * (x \div d) + (x % d)
         /\ 0 <= x % d /\ x % d < d
         /\ x \div d \in Int /\ x % d \in Int
  BY Z3

LEMMA NonNegQuotient ==
  ASSUME NEW x \in Int, NEW d \in Int, NEW m \in Int, NEW r \in Int,
         x >= 0, d > 0, x = d * m + r, 0 <= r, r < d
  PROVE  m >= 0
<1>1. SUFFICES ASSUME m <= -1 PROVE FALSE
  OBVIOUS
<1>2. d * m <= -d
  <2>1. d * m = -(d * (-m)) /\ -m \in Int /\ -m >= 1
    BY <1>1, Z3
  <2>2. d * (-m) >= d
    <3>1. d * (-m) - d = d * (-m - 1)
      BY Z3
    <3>2. -m - 1 \in Nat /\ d \in Nat
      BY <2>1
    <3>3. d * (-m - 1) >= 0
      BY <3>2, Z3
    <3> QED BY <3>1, <3>3
  <2> QED BY <2>1, <2>2
<1> QED BY <1>2

LEMMA Bounds ==
  ASSUME NEW x \in Int, NEW d \in Int, NEW m \in Int, NEW r \in Int,
         d > 0, x = d * m + r, 0 <= r, r < d
  PROVE  m * d <= x /\ x < (m + 1) * d
<1>1. m * d = d * m /\ (m + 1) * d = d * m + d
  BY Z3
<1> QED BY <1>1

LEMMA PosProduct ==
  ASSUME NEW m \in Int, NEW d \in Int, m >= 1, d >= 1
  PROVE  m * d >= d
<1>1. m * d - d = (m - 1) * d
  BY Z3
<1>2. m - 1 \in Nat /\ d \in Nat
  OBVIOUS
<1>3. (m - 1) * d >= 0
  BY <1>2, Z3
<1> QED BY <1>1, <1>3

THEOREM TruncQIsTrunc ==
  ASSUME NEW a \in Int, NEW b \in Int, b # 0
  PROVE  IsTrunc(a, b, TruncQ(a, b))
<1> DEFINE x == Abs(a)
           d == Abs(b)
           m == x \div d
<1>1. x \in Int /\ x >= 0 /\ d \in Int /\ d > 0
  BY DEF Abs
<1>2. /\ x = d * m + (x % d) /\ 0 <= x % d /\ x % d < d /\ m \in Int /\ x % d \in Int
  BY <1>1, DivMod
<1>3. m >= 0
  BY <1>1, <1>2, NonNegQuotient
<1>4. m * d <= x /\ x < (m + 1) * d
  BY <1>1, <1>2, Bounds
<1>5. TruncQ(a, b) = IF (a < 0) = (b < 0) THEN m ELSE -m
  BY DEF TruncQ
<1>6. Abs(TruncQ(a, b)) = m
  BY <1>3, <1>5 DEF Abs
<1>7. m > 0 => a # 0
  <2>1. SUFFICES ASSUME m > 0, a = 0 PROVE FALSE
    OBVIOUS
  <2>2. x = 0
    BY <2>1 DEF Abs
  <2>3. m * d >= d
    BY <2>1, <1>1, <1>2, PosProduct
  <2> QED BY <2>2, <2>3, <1>4, <1>1
<1>8. (TruncQ(a, b) > 0 => (a > 0) = (b > 0)) /\ (TruncQ(a, b) < 0 => (a > 0) # (b > 0))
  <2>1. CASE (a < 0) = (b < 0)
    <3>1. TruncQ(a, b) = m
      BY <2>1, <1>5
    <3>2. TruncQ(a, b) > 0 => a # 0
      BY <3>1, <1>7
    <3>3. ~(TruncQ(a, b) < 0)
      BY <3>1, <1>3, <1>2
    <3> QED BY <3>2, <3>3, <2>1
  <2>2. CASE (a < 0) # (b < 0)
    <3>1. TruncQ(a, b) = -m
      BY <2>2, <1>5
    <3>2. ~(TruncQ(a, b) > 0)
      BY <3>1, <1>3, <1>2
    <3>3. TruncQ(a, b) < 0 => a # 0
      BY <3>1, <1>7, <1>2
    <3> QED BY <3>2, <3>3, <2>2
  <2> QED BY <2>1, <2>2
<1> QED BY <1>4, <1>6, <1>8 DEF IsTrunc
=============================================================================
