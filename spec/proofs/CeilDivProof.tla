--------------------------- MODULE CeilDivProof ---------------------------
(* Unbounded complement to the bounded TLC law CeilLaw of IntMathLaws.tla
   (MC_IntMath.cfg checks it on [-N,N]^2): the closed form CeilQ used by the
   judge of C06 satisfies the defining inequality of the ceiling of a/b for ALL
   integers a and all non-zero integers b, and the ceiling is unique.
   Checked with the TLA+ proof system:  tlapm spec/proofs/CeilDivProof.tla
   (definitions copied verbatim from spec/IntMath.tla).                       *)
EXTENDS Integers, TLAPS

IsCeil(a, b, q) ==
  IF b > 0 THEN (q - 1) * b < a /\ a <= q * b
           ELSE (q - 1) * b > a /\ a >= q * b
CeilQ(a, b) == IF b > 0 THEN -((-a) \div b) ELSE -(a \div (-b))

(* floor division by a positive number: the two facts about \div and % that are needed *)
LEMMA DivMod ==
  ASSUME NEW x \in Int, NEW d \in Int, d > 0
  PROVE  /\ x = d * (x \div d) + (x % d)
         /\ 0 <= x % d /\ x % d < d
         /\ x \div d \in Int /\ x % d \in Int
  BY Z3

(* pure integer algebra, kept apart from \div and % so that the SMT back end sees small goals *)
LEMMA PosAlgebra ==
  ASSUME NEW a \in Int, NEW b \in Int, NEW q \in Int, NEW r \in Int,
         b > 0, -a = b * q + r, 0 <= r, r < b
  PROVE  (-q - 1) * b < a /\ a <= (-q) * b
<1>1. (-q - 1) * b = -(b * q) - b /\ (-q) * b = -(b * q)
  BY Z3
<1> QED BY <1>1, Z3

LEMMA NegAlgebra ==
  ASSUME NEW a \in Int, NEW b \in Int, NEW q \in Int, NEW r \in Int,
         b < 0, a = (-b) * q + r, 0 <= r, r < -b
  PROVE  (-q - 1) * b > a /\ a >= (-q) * b
<1>a. (-q) * b = (-b) * q
  BY Z3
<1>b. (-q - 1) * b = (-q) * b - b
  BY Z3
<1>1. (-q - 1) * b = (-b) * q + (-b) /\ (-q) * b = (-b) * q
  BY <1>a, <1>b
<1> QED BY <1>1, Z3

(* multiplication by a positive number is strictly monotone; by a negative one antitone *)
LEMMA MulMono ==
  ASSUME NEW x \in Int, NEW y \in Int, NEW c \in Int, c > 0, x * c < y * c
  PROVE  x < y
<1>1. SUFFICES ASSUME x >= y PROVE FALSE
  OBVIOUS
<1>2. x - y \in Nat
  BY <1>1
<1>3. (x - y) * c >= 0
  BY <1>2, Z3
<1>4. (x - y) * c = x * c - y * c
  BY Z3
<1> QED BY <1>3, <1>4

LEMMA MulAnti ==
  ASSUME NEW x \in Int, NEW y \in Int, NEW c \in Int, c < 0, x * c > y * c
  PROVE  x < y
<1>1. x * (-c) = -(x * c) /\ y * (-c) = -(y * c)
  BY Z3
<1>2. x * (-c) < y * (-c)
  BY <1>1
<1>3. -c \in Int /\ -c > 0
  OBVIOUS
<1> QED BY <1>2, <1>3, MulMono

THEOREM CeilQIsCeil ==
  ASSUME NEW a \in Int, NEW b \in Int, b # 0
  PROVE  IsCeil(a, b, CeilQ(a, b))
<1>1. CASE b > 0
  <2>1. /\ -a = b * ((-a) \div b) + ((-a) % b) /\ 0 <= (-a) % b /\ (-a) % b < b
        /\ (-a) \div b \in Int /\ (-a) % b \in Int
    BY <1>1, DivMod
  <2>2. CeilQ(a, b) = -((-a) \div b)
    BY <1>1 DEF CeilQ
  <2>3. (-((-a) \div b) - 1) * b < a /\ a <= (-((-a) \div b)) * b
    BY <2>1, <1>1, PosAlgebra
  <2> QED BY <2>2, <2>3, <1>1 DEF IsCeil
<1>2. CASE b < 0
  <2>0. -b \in Int /\ -b > 0
    BY <1>2
  <2>1. /\ a = (-b) * (a \div (-b)) + (a % (-b)) /\ 0 <= a % (-b) /\ a % (-b) < -b
        /\ a \div (-b) \in Int /\ a % (-b) \in Int
    BY <2>0, DivMod
  <2>2. CeilQ(a, b) = -(a \div (-b))
    BY <1>2 DEF CeilQ
  <2>3. (-(a \div (-b)) - 1) * b > a /\ a >= (-(a \div (-b))) * b
    BY <2>1, <1>2, NegAlgebra
  <2> QED BY <2>2, <2>3, <1>2 DEF IsCeil
<1> QED BY <1>1, <1>2

(* the ceiling is unique: two integers satisfying the defining inequality are equal *)
THEOREM CeilUnique ==
  ASSUME NEW a \in Int, NEW b \in Int, b # 0, NEW p \in Int, NEW q \in Int,
         IsCeil(a, b, p), IsCeil(a, b, q)
  PROVE  p = q
<1>1. CASE b > 0
  <2>1. (p - 1) * b < q * b /\ (q - 1) * b < p * b
    BY <1>1 DEF IsCeil
  <2>2. p - 1 < q /\ q - 1 < p
    BY <2>1, <1>1, MulMono
  <2> QED BY <2>2
<1>2. CASE b < 0
  <2>1. (p - 1) * b > q * b /\ (q - 1) * b > p * b
    BY <1>2 DEF IsCeil
  <2>2. p - 1 < q /\ q - 1 < p
    BY <2>1, <1>2, MulAnti
  <2> QED BY <2>2
<1> QED BY <1>1, <1>2
=============================================================================
