SPECIFICATION Spec
CONSTANTS
  MaxLen = 4
  MaxOps = 4
  Bug = "none"
INVARIANTS TypeOK LawPeekPure LawGetReconstructs LawToStringComplete LawExtract LawAbsorbing LawRunAgrees
CHECK_DEADLOCK FALSE
