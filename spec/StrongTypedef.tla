--------------------------- MODULE StrongTypedef ---------------------------
(* C17, first clause: every operator of fcppt::strong_typedef<T, Tag> gives
   exactly the wrapped result of the same operator on the underlying values
   (strong_typedef_arithmetic.hpp: + - * unary- ++ --; strong_typedef_bitwise.hpp:
   & | ^ ~; strong_typedef_assignment.hpp: += -= *= &= |= ^=;
   strong_typedef_comparison.hpp: < <= > >= == !=).  The headers offer no / % << >>,
   so none is demanded.

   This module defines "the result of the operator on the underlying values" for
   the two underlying types the harness drives (FixedWidth-style: TLC integers are
   32-bit, so the machine arithmetic is modelled explicitly):

     int       operands in [-128, 127]: no operator overflows, results are plain
               integers; the bitwise operators act on the two's complement
               representation, for which 8 bits are enough in this range (bits 8..31
               of both operands are copies of bit 7)
     unsigned  32-bit, arithmetic modulo 2^32 (C++ [basic.fundamental]): a value is a
               sequence of L limbs in base Base, least significant first (L = 4,
               Base = 256 for the real type; the model check uses smaller ones and
               compares with plain modular arithmetic)
*)
EXTENDS Integers, Sequences, Bitwise

(* ------------------------------------------------------------------ int *)
ToU8(a) == IF a < 0 THEN a + 256 ELSE a
ToS8(u) == IF u >= 128 THEN u - 256 ELSE u
SAdd(a, b) == a + b
SSub(a, b) == a - b
SMul(a, b) == a * b
SNeg(a) == 0 - a
SAnd(a, b) == ToS8(ToU8(a) & ToU8(b))
SOr(a, b) == ToS8(ToU8(a) | ToU8(b))
SXor(a, b) == ToS8(ToU8(a) ^^ ToU8(b))
SNot(a) == (0 - a) - 1
InSmall(a) == a \in -128..127

(* ------------------------------------------------------------- unsigned *)
CONSTANTS Base, L      \* limb base and number of limbs

Limbs == 1..L
Zero == [i \in Limbs |-> 0]
One == [i \in Limbs |-> IF i = 1 THEN 1 ELSE 0]
IsWord(x) == DOMAIN x = Limbs /\ \A i \in Limbs : x[i] \in 0..(Base - 1)

RECURSIVE AddC(_, _, _, _)
(* limbs i.. of x + y + carry *)
AddC(x, y, i, c) ==
  IF i > L THEN <<>>
  ELSE LET s == x[i] + y[i] + c IN <<s % Base>> \o AddC(x, y, i + 1, s \div Base)
UAdd(x, y) == AddC(x, y, 1, 0)

UNot(x) == [i \in Limbs |-> (Base - 1) - x[i]]
UNeg(x) == UAdd(UNot(x), One)                 \* 2^32 - x  (0 for 0)
USub(x, y) == UAdd(x, UNeg(y))

(* schoolbook product truncated to L limbs: column sums stay far below 2^31 *)
Col(x, y, k) ==
  LET RECURSIVE S(_) S(i) == IF i > k THEN 0 ELSE x[i] * y[k + 1 - i] + S(i + 1) IN S(1)
RECURSIVE MulC(_, _, _, _)
MulC(x, y, k, c) ==
  IF k > L THEN <<>>
  ELSE LET s == Col(x, y, k) + c IN <<s % Base>> \o MulC(x, y, k + 1, s \div Base)
UMul(x, y) == MulC(x, y, 1, 0)

UAnd(x, y) == [i \in Limbs |-> x[i] & y[i]]
UOr(x, y) == [i \in Limbs |-> x[i] | y[i]]
UXor(x, y) == [i \in Limbs |-> x[i] ^^ y[i]]

RECURSIVE LessFrom(_, _, _)
LessFrom(x, y, i) == IF i = 0 THEN FALSE ELSE IF x[i] # y[i] THEN x[i] < y[i] ELSE LessFrom(x, y, i - 1)
ULess(x, y) == LessFrom(x, y, L)

(* value of a word / word of a value - only used by the model check, where
   Base^L is small *)
RECURSIVE Pow(_, _)
Pow(b, e) == IF e = 0 THEN 1 ELSE b * Pow(b, e - 1)
Modulus == Pow(Base, L)
RECURSIVE ValFrom(_, _)
ValFrom(x, i) == IF i > L THEN 0 ELSE x[i] + Base * ValFrom(x, i + 1)
Val(x) == ValFrom(x, 1)
Word(v) == [i \in Limbs |-> (v \div Pow(Base, i - 1)) % Base]
=============================================================================
