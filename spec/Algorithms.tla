----------------------------- MODULE Algorithms -----------------------------
(* C16 - reference definitions of the fcppt.algorithm functions and of the
   container / array / tuple helpers (DESIGN.md 3.16).

   Everything is a loop-free definition on sequences (ranges in iteration order),
   finite sets and functions.  Conventions:
     * an optional is a sequence of length 0 (nothing) or 1;
     * an iterator result is the 0-based distance from begin();
     * a std::set / std::map is its iteration sequence: strictly increasing
       elements / pairs <<k, v>> with strictly increasing keys;
     * user functions are TABLES indexed by the "code" 0..2 of the element
       (the element itself, or the mapped value of a <<k, v>> pair): Ap(t, c);
     * every operator XxxR returns the record the real call must produce:
       r (result), log (CALL LOG of the user function: which arguments, in which
       order, where it stops), st (final state of a mutated container), ...     *)
EXTENDS Integers, Sequences, FiniteSets
LOCAL SX == INSTANCE SequencesExt

None == <<>>
Some(x) == <<x>>

Ap(t, c) == t[c + 1]
Code(ek, e) == IF ek = 0 THEN e ELSE e[2]
ApE(t, ek, e) == Ap(t, Code(ek, e))

Indices(s) == 1..Len(s)
Prefix(s, n) == SubSeq(s, 1, n)
RangeOf(s) == {s[i] : i \in Indices(s)}
MinOf(a, b) == IF a < b THEN a ELSE b
MaxOf(a, b) == IF a < b THEN b ELSE a

(* index of the first element satisfying P, Len(s)+1 if there is none *)
FirstIdx(s, P(_)) ==
  IF \E i \in Indices(s) : P(s[i])
  THEN CHOOSE i \in Indices(s) : P(s[i]) /\ \A j \in 1..(i - 1) : ~P(s[j])
  ELSE Len(s) + 1

(* the elements of s at the index set K, in order *)
SortedSeqOf(S) == SX!SetToSortSeq(S, LAMBDA a, b : a < b)
SubAt(s, K) == LET idx == SortedSeqOf(K) IN [j \in 1..Len(idx) |-> s[idx[j]]]
Flatten(ss) == SX!FlattenSeq(ss)

IsSorted(s) == \A i \in 1..(Len(s) - 1) : s[i] <= s[i + 1]
IsStrictlySorted(s) == \A i \in 1..(Len(s) - 1) : s[i] < s[i + 1]
(* pairs with strictly increasing keys *)
IsMapSeq(m) == \A i \in 1..(Len(m) - 1) : m[i][1] < m[i + 1][1]
Keys(m) == {m[i][1] : i \in Indices(m)}
Lookup(m, k) == (CHOOSE i \in Indices(m) : m[i][1] = k)
PairsSorted(S) == SX!SetToSortSeq(S, LAMBDA a, b : a[1] < b[1])

----------------------------------------------------------------------------
(* map / map_optional / map_concat: f applied to every element, in order *)
Map(f(_), s) == [i \in Indices(s) |-> f(s[i])]
MapOptional(f(_), s) == Flatten(Map(f, s))        \* f returns an optional
MapConcat(f(_), s) == Flatten(Map(f, s))          \* f returns a sequence

(* result container kinds: a sequence keeps everything, a set sorts and drops duplicates *)
Into(tgt, s) == IF tgt = "set" THEN SortedSeqOf(RangeOf(s)) ELSE s

MapR(tgt, t, ek, s) == [r |-> Into(tgt, Map(LAMBDA e : ApE(t, ek, e), s)), log |-> s]
MapOptionalR(tgt, t, ek, s) == [r |-> Into(tgt, MapOptional(LAMBDA e : ApE(t, ek, e), s)), log |-> s]
MapConcatR(tgt, t, ek, s) == [r |-> Into(tgt, MapConcat(LAMBDA e : ApE(t, ek, e), s)), log |-> s]

(* fold: cur = f(element, cur) for every element; states F[0..n] *)
FoldStates(f(_, _), st0, s) ==
  LET F[i \in 0..Len(s)] == IF i = 0 THEN st0 ELSE f(s[i], F[i - 1]) IN F
FoldLeft(f(_, _), st0, s) == FoldStates(f, st0, s)[Len(s)]
FoldR(f(_, _), st0, s) ==
  LET F == FoldStates(f, st0, s)
  IN [r |-> F[Len(s)], log |-> [i \in Indices(s) |-> <<s[i], F[i - 1]>>]]

(* fold_break: g(e, st) = <<break?, st'>>; calls for i = 1..x where x <= n is the largest
   number such that no call before x asked to break (fold_break.hpp) *)
FoldBreakStates(g(_, _), st0, s) ==
  LET F[i \in 0..Len(s)] ==
        IF i = 0 THEN <<FALSE, st0>>
        ELSE LET prev == F[i - 1] IN IF prev[1] THEN prev ELSE g(s[i], prev[2])
  IN F
FoldBreakCalls(g(_, _), st0, s) ==
  LET F == FoldBreakStates(g, st0, s)
  IN IF \E i \in Indices(s) : F[i][1]
     THEN CHOOSE i \in Indices(s) : F[i][1] /\ \A j \in 1..(i - 1) : ~F[j][1]
     ELSE Len(s)
FoldBreak(g(_, _), st0, s) == FoldBreakStates(g, st0, s)[Len(s)][2]
FoldBreakR(g(_, _), st0, s) ==
  LET F == FoldBreakStates(g, st0, s)
      x == FoldBreakCalls(g, st0, s)
  IN [r |-> F[Len(s)][2], log |-> [i \in 1..x |-> <<s[i], F[i - 1][2]>>]]

(* loop visits everything; loop_break stops after the first element whose body breaks *)
Loop(s) == s
LoopBreak(brk(_), s) == Prefix(s, MinOf(FirstIdx(s, brk), Len(s)))
LoopR(s) == [log |-> Loop(s)]
LoopBreakR(t, ek, s) == [log |-> LoopBreak(LAMBDA e : ApE(t, ek, e), s)]

AllOf(p(_), s) == \A i \in Indices(s) : p(s[i])
AllOfR(t, ek, s) ==
  LET p(e) == ApE(t, ek, e) IN
  [r |-> AllOf(p, s), log |-> LoopBreak(LAMBDA e : ~p(e), s)]
ContainsIf(p(_), s) == \E i \in Indices(s) : p(s[i])
ContainsIfR(t, ek, s) ==
  LET p(e) == ApE(t, ek, e) IN
  [r |-> ContainsIf(p, s), log |-> LoopBreak(p, s)]
Contains(s, v) == \E i \in Indices(s) : s[i] = v
ContainsR(s, v) == [r |-> Contains(s, v)]

(* find_*: first match, as an optional position / value *)
FindIfOpt(p(_), s) == LET i == FirstIdx(s, p) IN IF i <= Len(s) THEN Some(i - 1) ELSE None
FindOpt(s, v) == FindIfOpt(LAMBDA e : e = v, s)
IndexOf(s, v) == FindOpt(s, v)
FindOptR(s, v) == [r |-> FindOpt(s, v)]
FindIfOptR(t, ek, s) ==
  LET p(e) == ApE(t, ek, e) IN [r |-> FindIfOpt(p, s), log |-> LoopBreak(p, s)]
(* f returns an optional; the first non-empty one is the result *)
FindByOpt(f(_), s) ==
  LET i == FirstIdx(s, LAMBDA e : f(e) # None) IN IF i <= Len(s) THEN f(s[i]) ELSE None
FindByOptR(t, ek, s) ==
  LET f(e) == ApE(t, ek, e) IN
  [r |-> FindByOpt(f, s), log |-> LoopBreak(LAMBDA e : f(e) # None, s)]

(* sorted input.  equal_range: [first not less, first greater).  binary_search (header):
   "If there is exactly one element that is uncomparable to _value, returns an iterator to
   that element.  Otherwise, returns the empty optional." *)
LowerBound(s, v) == Cardinality({i \in Indices(s) : s[i] < v})
UpperBound(s, v) == Cardinality({i \in Indices(s) : s[i] <= v})
EqualRange(s, v) == <<LowerBound(s, v), UpperBound(s, v)>>
BinarySearch(s, v) ==
  LET E == {i \in Indices(s) : s[i] = v}
  IN IF Cardinality(E) = 1 THEN Some((CHOOSE i \in E : TRUE) - 1) ELSE None
EqualRangeR(s, v) == [r |-> EqualRange(s, v)]
BinarySearchR(s, v) == [r |-> BinarySearch(s, v)]

(* mutating helpers: final contents + returned flag *)
RemoveIf(p(_), s) == SelectSeq(s, LAMBDA e : ~p(e))
Remove(s, v) == RemoveIf(LAMBDA e : e = v, s)
RemoveIfR(t, s) ==
  LET st == RemoveIf(LAMBDA e : Ap(t, e), s) IN [st |-> st, r |-> Len(st) # Len(s), log |-> s]
RemoveR(s, v) == LET st == Remove(s, v) IN [st |-> st, r |-> Len(st) # Len(s)]

(* unique: all but the first element of every group of consecutive equivalent elements go.
   eq must be an equivalence relation (precondition of std::unique) *)
UniqueKeep(eq(_, _), s) == {i \in Indices(s) : i = 1 \/ ~eq(s[i - 1], s[i])}
UniqueIf(eq(_, _), s) == SubAt(s, UniqueKeep(eq, s))
Unique(s) == UniqueIf(LAMBDA a, b : a = b, s)
IsEquivalence(bt) ==
  /\ \A a \in 0..2 : bt[a + 1][a + 1]
  /\ \A a, b \in 0..2 : bt[a + 1][b + 1] = bt[b + 1][a + 1]
  /\ \A a, b, c \in 0..2 : (bt[a + 1][b + 1] /\ bt[b + 1][c + 1]) => bt[a + 1][c + 1]
(* the predicate is asked once per adjacent position i -> i+1: second argument s[i+1], first
   argument the preceding element or the last element kept (equivalent under eq) *)
UniqueLogOk(eq(_, _), s, log) ==
  /\ Len(log) = MaxOf(Len(s) - 1, 0)
  /\ \A i \in Indices(log) :
       /\ log[i][2] = s[i + 1]
       /\ LET K == {k \in UniqueKeep(eq, s) : k <= i}
              lastkept == s[CHOOSE k \in K : \A k2 \in K : k2 <= k]
          IN log[i][1] \in {s[i], lastkept}

Reverse(s) == [i \in Indices(s) |-> s[Len(s) + 1 - i]]
ReverseR(s) == [r |-> Reverse(s)]

(* repeat / generate_n: the generator's i-th call (0-based) returns Ap(t, i % 3) *)
RepeatR(n) == [calls |-> n]
GenerateN(n, gen(_)) == [i \in 1..n |-> gen(i - 1)]
GenerateNR(tgt, n, t) == [r |-> Into(tgt, GenerateN(n, LAMBDA i : Ap(t, i % 3))), calls |-> n]

(* split_string (header): with p_1 < ... < p_m the positions of the delimiter and
   p_0 = 0, p_{m+1} = n + 1, the pieces are s[p_{j-1}+1 .. p_j - 1], j = 1..m+1 *)
SplitString(s, d) ==
  LET P == SortedSeqOf({i \in Indices(s) : s[i] = d})
      m == Len(P)
      lo(j) == IF j = 1 THEN 1 ELSE P[j - 1] + 1
      hi(j) == IF j = m + 1 THEN Len(s) ELSE P[j] - 1
  IN [j \in 1..(m + 1) |-> SubSeq(s, lo(j), hi(j))]
(* join_strings: the delimiter (itself a string) between every pair of consecutive elements *)
JoinStrings(ss, d) ==
  LET J[i \in 0..Len(ss)] == IF i = 0 THEN <<>> ELSE IF i = 1 THEN ss[1] ELSE J[i - 1] \o d \o ss[i]
  IN J[Len(ss)]
SplitStringR(s, d) == [r |-> SplitString(s, d)]
JoinStringsR(ss, d) == [r |-> JoinStrings(ss, d)]
SplitJoinR(s, d) == [r |-> s]        \* join_strings(split_string(s, d), d) = s

(* map_iteration / sequence_iteration: every element visited exactly once, in order;
   the ones whose action says remove are gone afterwards, the rest keep their order *)
IterationR(t, ek, s) ==
  [st |-> SelectSeq(s, LAMBDA e : ~ApE(t, ek, e)), log |-> s]
(* map_iteration_second passes the mapped object *)
IterationSecondR(t, s) ==
  [st |-> SelectSeq(s, LAMBDA e : ~Ap(t, e[2])), log |-> [i \in Indices(s) |-> s[i][2]]]

----------------------------------------------------------------------------
(* container helpers *)
(* join: the other containers are inserted into the first.  Sequences: concatenation;
   sets: union; maps: an existing key keeps its mapped value *)
JoinSeq(cs) == Flatten(cs)
JoinSet(cs) == SortedSeqOf(UNION {RangeOf(cs[i]) : i \in Indices(cs)})
JoinMap(cs) ==
  LET ks == UNION {Keys(cs[i]) : i \in Indices(cs)}
      first(k) == CHOOSE i \in Indices(cs) : k \in Keys(cs[i]) /\ \A j \in 1..(i - 1) : k \notin Keys(cs[j])
  IN PairsSorted({<<k, cs[first(k)][Lookup(cs[first(k)], k)][2]>> : k \in ks})
ContainerJoin(kind, cs) ==
  IF kind = "set" THEN JoinSet(cs) ELSE IF kind = "map" THEN JoinMap(cs) ELSE JoinSeq(cs)
ContainerJoinR(kind, cs) == [r |-> ContainerJoin(kind, cs)]

AtOptional(s, i) == IF i >= 0 /\ i < Len(s) THEN Some(s[i + 1]) ELSE None
AtOptionalR(s, i) == [r |-> AtOptional(s, i)]
(* the result refers to the element *in* the container: the harness adds `bump` through it *)
AtOptionalMutR(s, i, bump) ==
  [r |-> AtOptional(s, i),
   st |-> IF i >= 0 /\ i < Len(s) THEN [s EXCEPT ![i + 1] = @ + bump] ELSE s]

FindOptMapped(m, k) == IF k \in Keys(m) THEN Some(m[Lookup(m, k)][2]) ELSE None
FindOptMappedR(m, k) == [r |-> FindOptMapped(m, k)]
FindOptMappedMutR(m, k, bump) ==
  [r |-> FindOptMapped(m, k),
   st |-> IF k \in Keys(m) THEN [m EXCEPT ![Lookup(m, k)] = <<k, @[2] + bump>>] ELSE m]

(* get_or_insert(_with_result): the mapped object of k; create(k) is called and its result
   inserted only if k is absent; inserted = TRUE iff a new element was inserted.  The harness
   adds `bump` through the returned reference afterwards: it must refer to the element *in*
   the container *)
GetOrInsertR(m, k, t, bump) ==
  LET found == k \in Keys(m)
      elem == IF found THEN m[Lookup(m, k)][2] ELSE Ap(t, k)
      others == {m[i] : i \in {j \in Indices(m) : m[j][1] # k}}
  IN [elem |-> elem, inserted |-> ~found, log |-> IF found THEN <<>> ELSE <<k>>,
      \* the object is created first and *then* inserted: create does not see the key in the map
      present |-> IF found THEN <<>> ELSE <<FALSE>>,
      st |-> PairsSorted(others \cup {<<k, elem + bump>>})]

KeySet(m) == [i \in Indices(m) |-> m[i][1]]
MapValues(m) == [i \in Indices(m) |-> m[i][2]]
KeySetR(m) == [r |-> KeySet(m)]
MapValuesR(m) == [r |-> MapValues(m)]
(* map_values_ref on a mutable map: the i-th reference refers to the i-th mapped object (the
   harness adds 10 i through it) *)
MapValuesRefMutR(m) == [r |-> MapValues(m), st |-> [i \in Indices(m) |-> <<m[i][1], m[i][2] + 10 * i>>]]

(* set algebra on strictly sorted sequences *)
SetUnion(a, b) == SortedSeqOf(RangeOf(a) \cup RangeOf(b))
SetIntersection(a, b) == SelectSeq(a, LAMBDA e : e \in RangeOf(b))
SetDifference(a, b) == SelectSeq(a, LAMBDA e : e \notin RangeOf(b))
SetOpR(op, a, b) ==
  [r |-> IF op = "set_union" THEN SetUnion(a, b)
         ELSE IF op = "set_intersection" THEN SetIntersection(a, b) ELSE SetDifference(a, b)]

----------------------------------------------------------------------------
(* array / tuple helpers (arrays and tuples are sequences) *)
ArrayMapR(t, s) == [r |-> Map(LAMBDA e : Ap(t, e), s), log |-> s]
ArrayAppend(a, b) == a \o b
ArrayJoin(as) == Flatten(as)
ArrayPushBack(a, x) == Append(a, x)
(* init calls the function with the static indices 0..N-1 in order *)
ArrayInitR(n, t) == [r |-> [i \in 1..n |-> Ap(t, (i - 1) % 3)], log |-> [i \in 1..n |-> i - 1]]
ArrayFromRange(n, s) == IF Len(s) = n THEN Some(s) ELSE None
TupleMapR(t, s) == ArrayMapR(t, s)
TupleConcat(ts) == Flatten(ts)
TuplePushBack(a, x) == Append(a, x)

----------------------------------------------------------------------------
(* EXTENSION ROUND: the remaining helpers of fcppt.algorithm / container / array / tuple / enum_ /
   range.  Each definition quotes the sentence of the header it transcribes. *)

(* algorithm::equal - "Compares two ranges for equality." (std::equal with both ends) *)
Equal(s, t) == Len(s) = Len(t) /\ \A i \in Indices(s) : s[i] = t[i]

(* container::contains - "Checks if a container has a key." *)
ContainsKey(keys, k) == \E i \in Indices(keys) : keys[i] = k
(* container::find_opt(_iterator) - "If _key is found, its iterator is returned [find_opt: the
   element]. Otherwise, the empty optional is returned."  Position in the sorted key sequence *)
KeyOf(ek, e) == IF ek = 0 THEN e ELSE e[1]
FindElemR(ek, xs, k) ==
  LET i == FirstIdx(xs, LAMBDA e : KeyOf(ek, e) = k)
  IN IF i <= Len(xs) THEN [pos |-> Some(i - 1), elem |-> Some(xs[i])] ELSE [pos |-> None, elem |-> None]
(* container::insert - "\return Whether the value was inserted."; associative container with unique keys *)
InsertSetR(a, x) == [r |-> x \notin RangeOf(a), st |-> SortedSeqOf(RangeOf(a) \cup {x})]
InsertMapR(m, k, x) ==
  [r |-> k \notin Keys(m), st |-> IF k \in Keys(m) THEN m ELSE PairsSorted(RangeOf(m) \cup {<<k, x>>})]
(* container::make - "Creates a container from variadic arguments by moving." *)
ContainerMake(tgt, args) == Into(tgt, args)
(* maybe_front / maybe_back - "Returns the front [back] of a container as an optional."; the
   optional is a reference: the harness adds bump through it *)
MaybeFront(s) == IF s = <<>> THEN None ELSE Some(s[1])
MaybeBack(s) == IF s = <<>> THEN None ELSE Some(s[Len(s)])
MaybeFrontMutR(s, bump) == [r |-> MaybeFront(s), st |-> IF s = <<>> THEN s ELSE [s EXCEPT ![1] = @ + bump]]
MaybeBackMutR(s, bump) == [r |-> MaybeBack(s), st |-> IF s = <<>> THEN s ELSE [s EXCEPT ![Len(s)] = @ + bump]]
(* pop_front / pop_back - "Pops the front [back] of a container as an optional." *)
PopFrontR(s) == [r |-> MaybeFront(s), st |-> IF s = <<>> THEN s ELSE Tail(s)]
PopBackR(s) == [r |-> MaybeBack(s), st |-> IF s = <<>> THEN s ELSE SubSeq(s, 1, Len(s) - 1)]
(* container::size - "Uses size() if possible, otherwise calculates the distance from begin to end." *)
SizeOf(s) == Len(s)
(* container::data / data_end - "Returns a pointer to the beginning [one past the end] of
   _container, or the null pointer if _container is empty." *)
DataR(s) == [null |-> s = <<>>, len |-> Len(s), first |-> MaybeFront(s)]

(* text forms.  Elements are single digits 0..9 (code point 48 + x), ',' = 44.
   container::output "[a,b]", array output "[a,b]", tuple output "(a,b)",
   enum array output "[name=value,...]" *)
Digit(x) == <<48 + x>>
Delimited(open, close, pieces) == <<open>> \o JoinStrings(pieces, <<44>>) \o <<close>>
SeqText(s) == Delimited(91, 93, [i \in Indices(s) |-> Digit(s[i])])
TupleText(s) == Delimited(40, 41, [i \in Indices(s) |-> Digit(s[i])])
EnumArrayText(names, s) == Delimited(91, 93, [i \in Indices(s) |-> names[i] \o <<61>> \o Digit(s[i])])

(* container::index_map - "This container is a wrapper around a vector that grows on demand. If the
   container is accessed with an out-of-bounds index, it inserts a new element first."
   get: "Returns the element at index. If there is no such element, the result of insert() is
   inserted. Note that insert might be called multiple times."  operator[]: "If there is no such
   element, T() is inserted."  State = the vector; gen(j) = value of the j-th call (0-based) of
   insert() within this access; the result is a reference (bump added through it). *)
IndexMapGrow(st, i, gen(_)) ==
  IF i < Len(st) THEN st ELSE st \o [j \in 1..(i + 1 - Len(st)) |-> gen(j - 1)]
IndexMapGetR(st, i, gen(_), bump) ==
  LET g == IndexMapGrow(st, i, gen)
  IN [r |-> g[i + 1], calls |-> Len(g) - Len(st), st |-> [g EXCEPT ![i + 1] = @ + bump]]
IndexMapSubscriptR(st, i, bump) == LET e == IndexMapGetR(st, i, LAMBDA j : 0, bump) IN [r |-> e.r, st |-> e.st]

(* fcppt.range - empty: "Tests if a range is empty."; size: "Returns the size of a range.";
   singular: "Tests if a range consists of a single element."; from_pair: "Creates a range from a
   std::pair." (of iterators at offsets i <= j); begin/end: "Calls begin [end] via ADL." *)
RangeEmpty(s) == s = <<>>
RangeSize(s) == Len(s)
RangeSingular(s) == Len(s) = 1
RangeFromPair(s, i, j) == SubSeq(s, i + 1, j)

(* fcppt.array - apply: "Calls _function(e, e_1, ..., e_n) for every e of _array1 and e_1, ..., e_n
   of _arrays."; make: "The result is fcppt::array::object<T,n>{a_1,...,a_n}"; members *)
ArrayApplyR(t2, a, b) ==
  [r |-> [i \in Indices(a) |-> t2[a[i] + 1][b[i] + 1]], log |-> [i \in Indices(a) |-> <<a[i], b[i]>>]]
ArrayMembersR(s) == [size |-> Len(s), unsafe |-> s, get |-> s, iter |-> s, data |-> s]
(* array output / comparison: see SeqText / = *)

(* fcppt.tuple - apply: "Calculates r_j = _function(u_{1,j}, ..., u_{n,j}) for every 1 <= j <= k";
   invoke: "Let _tuple = (x_1,...,x_n). Then the result is f(x_1,...,x_n)." (the harness's f logs its
   arguments and returns table[(x_1 + ... + x_n) mod 3]); from_array; make; init: "calling
   _function(std::integral_constant<std::size_t, Index>) for every index" *)
SeqSum(s) == LET S[k \in 0..Len(s)] == IF k = 0 THEN 0 ELSE S[k - 1] + s[k] IN S[Len(s)]
TupleApplyR(t2, a, b) == ArrayApplyR(t2, a, b)
TupleInvokeR(t, s) == [r |-> Ap(t, SeqSum(s) % 3), log |-> <<s>>]
TupleFromArray(s) == s
TupleInitR(n, t) == ArrayInitR(n, t)

(* fcppt.enum_ (enumerators 0..n-1) - array_init: "calling
   _function(std::integral_constant<Array::enum_type,E>) for every enumerator E"; array operator[]
   "takes a parameter of type Enum" (reference: bump added through it); index_of_array: "returns the
   index of the first occurrence as an enum if there is any, otherwise returns the empty optional";
   to_static: passes the enumerator as a static constant to the function and returns its result;
   names: the array of to_string of every enumerator; from_string: "The default implementation
   iterates over all outputs of to_string" -> first enumerator with that name;
   min_value = 0, max_value = fcppt_maximum, size = "max_value + 1" *)
EnumArrayInitR(n, t) == [r |-> [i \in 1..n |-> Ap(t, (i - 1) % 3)], log |-> [i \in 1..n |-> i - 1]]
EnumArrayAtR(s, e, bump) == [r |-> s[e + 1], st |-> [s EXCEPT ![e + 1] = @ + bump]]
EnumIndexOfArray(s, v) == FindOpt(s, v)
EnumToStaticR(t, e) == [r |-> Ap(t, e % 3), log |-> <<e>>]
EnumFromString(names, str) == FindOpt(names, str)
EnumConstsR(max) == [min |-> 0, max |-> max, size |-> max + 1]
=============================================================================
