SPECIFICATION Spec
CONSTANTS
  MaxObj = 4
  Allowed = {}
  LCat = "clvalue"
INVARIANTS TypeOK InvNoDuplication InvLvalueIntact InvReadsLive InvEndImplied
CHECK_DEADLOCK FALSE
