SPECIFICATION Spec
CONSTANTS
  BitsTable <- ScaledBits
  MCTypes = {"i8", "u8", "i16", "u16", "i32", "u32", "i64", "u64"}
  FromIntNarrowBug = FALSE
  Log2ShiftBug = FALSE
  CeilDivSignedBug = FALSE
  DiffPromoBug = FALSE
  TCToSignedBug = FALSE
  MutTCLessEq = TRUE
  MutCeilDivAdd = FALSE
  MutClampLess = FALSE
  IntervalTouchBug = FALSE
  MutConvZeroExtend = FALSE
INVARIANTS ImplEqualsDefinition NoUB
CHECK_DEADLOCK FALSE
