----------------------------- MODULE GridJudge -----------------------------
(* Judge of the records written by harness/c08_grid.cpp (property C08).
   One record = one call (or one batch of calls on the same grid) of the real
   fcppt::container::grid code; GridReasons(r) is the set of reasons why
   Grid.tla cannot explain what the call did ({} = explained).
   "HARNESS-PRECONDITION" is not a verdict about fcppt: the harness logged
   something that does not cover the input space it claims to cover. *)
EXTENDS Grid, GridObj, RecordLoop

Pfx(c, n) == SubSeq(c, 1, n)
R(cond, why) == IF cond THEN {} ELSE {why}
(* Scope (binding): only behaviour named by the statement of C08 may become a VIOLATION:
     "the linear offset of a position is a bijection between the in-range positions and [0, content),
      iterating the position range of the whole grid visits every in-range position exactly once in
      storage order, and a sub-range given by min and sup visits exactly the positions p with
      min <= p < sup component-wise (none if any component of min is not below sup) with size() equal
      to the number visited. at_optional yields an element exactly for in-range positions, and resize,
      map, apply, fill and the clamp helpers produce, cell by cell, the value their documentation
      specifies."
   Judged but OBSERVED ONLY (prefix "obs:", never rejects a record): the constructors and the other
   operations of the grid object machine (copy / move / swap / writes through get_unsafe and through
   storage iterators / destruction), operator<<, in_range / in_range_dim taken by themselves,
   interpolate, and the combination of the spiral range with at_optional.  Of the grid object machine
   the transitions write_at (at_optional), resize_assign (resize) and fill are inside the statement. *)
Obs(S) == {"obs:" \o w : w \in S}
ObjInScope == {"write_at", "resize_assign", "fill"}
Bool01(b) == IF b THEN 1 ELSE 0

SrcGrid(size, gen) == GridOf(size, LAMBDA p : Lin(gen, p))

(* observed grid (gsize, content, empty, cells read with get_unsafe, storage sequence) vs. g *)
GridObs(r, g) ==
  IF r.gsize # g.size THEN {"result-size"}
  ELSE
    LET n == r.N
        P == Positions(g.size)
    IN
    R({Pfx(r.cells[k], n) : k \in 1..Len(r.cells)} = P /\ Len(r.cells) = Cardinality(P), "HARNESS-PRECONDITION")
    \cup R(\A k \in 1..Len(r.cells) : Pfx(r.cells[k], n) \in P => r.cells[k][n + 1] = g.cell[Pfx(r.cells[k], n)], "cell-value")
    \cup R(r.flat = Storage(g), "storage-order")
    \cup R(r.content = Content(g.size), "content")
    \cup R(r.empty = (Content(g.size) = 0), "empty")

(* a walked range: the visited positions are RowMajor(S), nothing outside S is ever
   dereferenced, the walk terminated, size() is the number visited *)
Walk(r, S) ==
  R(~r.capped, "iteration-does-not-end")
  \cup R(\A k \in 1..Len(r.vis) : r.vis[k] \in S, "visits-position-outside-range")
  \cup R(r.capped \/ r.vis = RowMajor(S), "visited-sequence")
  \cup R(r.size = Cardinality(S), "size")

(* ---- extension: the grid object machine (GridObj.tla) ---------------------------
   every record is one transition: the observed slots before the operation (pre), the
   operation with its arguments, the observed slots after it (post), the returned flag and,
   for "output", the text written by operator<< *)
ObsGrid(o) ==
  [size |-> o.gsize,
   cell |-> [p \in Positions(o.gsize) |-> (CHOOSE c \in {o.cells[k] : k \in 1..Len(o.cells)} : Pfx(c, 2) = p)[3]]]
ObsCovers(o) == {Pfx(o.cells[k], 2) : k \in 1..Len(o.cells)} = Positions(o.gsize) /\ Len(o.cells) = Content(o.gsize)
SlotOf(o) == CASE o.k = "dead" -> Dead [] o.k = "moved" -> Moved [] o.k = "live" -> Live(ObsGrid(o))

ObjReasons(r) ==
  LET ns == Len(r.pre)
      preOk == \A k \in 1..ns : r.pre[k].k = "live" => ObsCovers(r.pre[k])
      st == [k \in 1..ns |-> SlotOf(r.pre[k])]
      a == [op |-> r.op, d |-> r.d, s |-> r.s, size |-> r.size, v |-> r.v, gen |-> r.gen, p |-> r.p, k |-> r.k]
  IN
  IF ~preOk \/ Len(r.post) # ns \/ r.d \notin 1..ns \/ (r.s # 0 /\ r.s \notin 1..ns) THEN {"HARNESS-PRECONDITION"}
  ELSE IF \E k \in 1..ns : r.pre[k].k = "live" /\ ~(r.pre[k].flat = Storage(ObsGrid(r.pre[k])) /\ r.pre[k].content = Content(r.pre[k].gsize))
       \* an earlier (already judged) operation left an object whose storage and size disagree: what any
       \* operation does to such an object is not a statement about that operation
       THEN Obs({"object-inconsistent-before-the-operation"})
  ELSE IF ~Pre(st, a) THEN {"HARNESS-PRECONDITION"}
  ELSE
    LET e == Eff(st, a)
        Scope(S) == IF r.op \in ObjInScope THEN S ELSE Obs(S)
    IN
    Scope(UNION {IF e.st[k].k # "live"
           THEN R(r.post[k].k = e.st[k].k, "slot-kind")
           ELSE IF r.post[k].k # "live" THEN {"slot-kind"}
                ELSE GridObs(r.post[k] @@ [N |-> 2], e.st[k].g) : k \in 1..ns}
          \cup R(r.ret = e.ret, "returned-flag"))
    \cup Obs(R(r.op = "output" => NoSpaces(r.text) = OutputText2(st[r.d].g), "output-text"))

GridReasons(r) ==
  CASE r.f = "obj" -> ObjReasons(r)
    [] r.f = "obj_stop" -> Obs({"script-not-defined-on-the-real-object"})
    [] r.f = "interp" ->
         R(InterpPre(r.gsize, r.q), "HARNESS-PRECONDITION")
         \cup Obs(R(r.exact /\ r.r16 = (IF r.N = 1 THEN 4 ELSE 1) * InterpScaled(SrcGrid(r.gsize, r.gen), r.q), "interpolate"))
    [] r.f = "spiral_grid" ->
         LET want == {p \in Positions(r.gsize) : Manhattan2(p, r.o) <= r.d} IN
         Obs(R(~r.capped, "iteration-does-not-end")
         \cup R(Len(r.hits) = Cardinality(want) /\ {r.hits[k] : k \in 1..Len(r.hits)} = want, "cells-within-distance")
         \cup R(Len(r.vals) = Len(r.hits) /\ \A k \in 1..Len(r.hits) : r.hits[k] \in Positions(r.gsize) => r.vals[k] = Lin(r.gen, r.hits[k]),
                "element-at-position")
         \cup R(\A k \in 1..(Len(r.hits) - 1) : Manhattan2(r.hits[k], r.o) <= Manhattan2(r.hits[k + 1], r.o), "distance-decreases"))
    [] r.f = "pos_range" ->
         Walk(r, RangeSet(r.min, r.sup))
         \cup R(r.rmin = r.min /\ r.rsup = r.sup, "min-sup-accessors")
    [] r.f = "whole_range" -> Walk(r, Positions(r.dim))
    [] r.f \in {"pos_ref_range", "whole_ref_range"} ->
         LET S == IF r.f = "pos_ref_range" THEN RangeSet(r.min, r.sup) ELSE Positions(r.gsize)
             g == SrcGrid(r.gsize, r.gen)
         IN
         R(S \subseteq Positions(r.gsize), "HARNESS-PRECONDITION")
         \cup Walk(r, S)
         \cup R(Len(r.vals) = Len(r.vis)
                /\ \A k \in 1..Len(r.vis) : r.vis[k] \in DOMAIN g.cell => r.vals[k] = g.cell[r.vis[k]], "element-at-position")
    [] r.f = "offset" ->
         LET P == Positions(r.size) IN
         R({r.ps[k] : k \in 1..Len(r.ps)} = P /\ Len(r.ps) = Cardinality(P) /\ Len(r.offs) = Len(r.ps), "HARNESS-PRECONDITION")
         \cup R(\A k \in 1..Len(r.ps) : r.ps[k] \in P => r.offs[k] = Offset(r.ps[k], r.size), "offset-value")
         \cup R({r.offs[k] : k \in 1..Len(r.offs)} = 0..(Content(r.size) - 1), "offset-not-bijective")
    [] r.f = "offset_at" ->
         (* round 3: "For every grid size, the linear offset of a position ..." on sizes far beyond the enumerated
            ones (strides > 2^16); single positions, the position set is not enumerated *)
         R(Len(r.offs) = Len(r.ps) /\ Len(r.ps) > 0
           /\ \A k \in 1..Len(r.ps) : \A i \in 1..r.N : r.ps[k][i] \in 0..(r.size[i] - 1), "HARNESS-PRECONDITION")
         \cup R(\A k \in 1..Len(r.ps) : r.offs[k] = Offset(r.ps[k], r.size), "offset-value")
         \cup R(\A k, k2 \in 1..Len(r.ps) : r.offs[k] = r.offs[k2] => r.ps[k] = r.ps[k2], "offset-not-bijective")
    [] r.f = "at" ->
         LET g == SrcGrid(r.gsize, r.gen)
             Opt(k, some, val) == IF some[k] = 1 THEN <<val[k]>> ELSE <<>>
         IN
         R(Positions(r.gsize) \subseteq {r.ps[k] : k \in 1..Len(r.ps)}, "HARNESS-PRECONDITION")
         \cup R(\A k \in 1..Len(r.ps) : Opt(k, r.some, r.val) = AtOptional(g, r.ps[k]), "at_optional")
         \cup R(\A k \in 1..Len(r.ps) : Opt(k, r.somec, r.valc) = AtOptional(g, r.ps[k]), "at_optional-const")
    [] r.f = "in_range" ->
         R(Positions(r.gsize) \subseteq {r.ps[k] : k \in 1..Len(r.ps)}, "HARNESS-PRECONDITION")
         \cup Obs(R(\A k \in 1..Len(r.ps) : r.inr[k] = Bool01(InRange(r.ps[k], r.gsize)), "in_range"))
         \cup Obs(R(\A k \in 1..Len(r.ps) : r.ird[k] = Bool01(InRange(r.ps[k], r.gsize)), "in_range_dim"))
    [] r.f = "construct" ->
         Obs(GridObs(r, CASE r.kind = "fn" -> SrcGrid(r.size, r.gen)
                          [] r.kind = "value" -> GridOf(r.size, LAMBDA p : r.gen[1])
                          [] r.kind = "default" -> EmptyGrid(r.N)) \ {"HARNESS-PRECONDITION"})
         \cup (GridObs(r, CASE r.kind = "fn" -> SrcGrid(r.size, r.gen)
                            [] r.kind = "value" -> GridOf(r.size, LAMBDA p : r.gen[1])
                            [] r.kind = "default" -> EmptyGrid(r.N)) \cap {"HARNESS-PRECONDITION"})
    [] r.f = "resize" ->
         GridObs(r, Resize(SrcGrid(r.size, r.gen), r.nsize, LAMBDA p : Lin(r.igen, p)))
    [] r.f = "map" ->
         GridObs(r, MapGrid(SrcGrid(r.size, r.gen), LAMBDA x : r.fa * x + r.fb))
    [] r.f = "apply" ->
         GridObs(r, ApplyGrids([k \in 1..Len(r.sizes) |-> SrcGrid(r.sizes[k], r.gens[k])], LAMBDA xs : Comb(r.co, xs)))
    [] r.f = "fill" ->
         GridObs(r, FillGrid(SrcGrid(r.size, r.gen), LAMBDA p : Lin(r.fgen, p)))
    [] r.f = "clamped_min" ->
         R(Len(r.ps) = Len(r.rs) /\ Len(r.ps) > 0, "HARNESS-PRECONDITION")
         \cup R(\A k \in 1..Len(r.ps) : r.rs[k] = ClampedMin(r.ps[k]), "clamped_min")
    [] r.f = "clamped_sup" ->
         R(Len(r.ps) = Len(r.rs) /\ Len(r.ps) > 0, "HARNESS-PRECONDITION")
         \cup R(\A k \in 1..Len(r.ps) : r.rs[k] = ClampedSup(r.ps[k], r.size), "clamped_sup")
    [] r.f = "clamped_sup_signed" ->
         R(Len(r.ps) = Len(r.rs) /\ Len(r.ps) > 0, "HARNESS-PRECONDITION")
         \cup R(\A k \in 1..Len(r.ps) : r.rs[k] = ClampedSupSigned(r.ps[k], r.size), "clamped_sup_signed")
    [] r.f = "stopped" -> {"driver-stopped-after-runaway-iteration"}
    [] OTHER -> {"unknown-record-kind"}
=============================================================================
