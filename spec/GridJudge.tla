----------------------------- MODULE GridJudge -----------------------------
(* Judge of the records written by harness/c08_grid.cpp (property C08).
   One record = one call (or one batch of calls on the same grid) of the real
   fcppt::container::grid code; GridReasons(r) is the set of reasons why
   Grid.tla cannot explain what the call did ({} = explained).
   "HARNESS-PRECONDITION" is not a verdict about fcppt: the harness logged
   something that does not cover the input space it claims to cover. *)
EXTENDS Grid, RecordLoop

Pfx(c, n) == SubSeq(c, 1, n)
R(cond, why) == IF cond THEN {} ELSE {why}
Bool01(b) == IF b THEN 1 ELSE 0

SrcGrid(size, gen) == GridOf(size, LAMBDA p : Lin(gen, p))

(* observed grid (gsize, content, empty, cells read with get_unsafe, storage sequence) vs. g *)
GridObs(r, g) ==
  IF r.gsize # g.size THEN {"result-size"}
  ELSE
    LET n == r.N
        P == Positions(g.size)
    IN
    R({Pfx(r.cells[k], n) : k \in 1..Len(r.cells)} = P /\ Len(r.cells) = Cardinality(P), "HARNESS-PRECONDITION")
    \cup R(\A k \in 1..Len(r.cells) : Pfx(r.cells[k], n) \in P => r.cells[k][n + 1] = g.cell[Pfx(r.cells[k], n)], "cell-value")
    \cup R(r.flat = Storage(g), "storage-order")
    \cup R(r.content = Content(g.size), "content")
    \cup R(r.empty = (Content(g.size) = 0), "empty")

(* a walked range: the visited positions are RowMajor(S), nothing outside S is ever
   dereferenced, the walk terminated, size() is the number visited *)
Walk(r, S) ==
  R(~r.capped, "iteration-does-not-end")
  \cup R(\A k \in 1..Len(r.vis) : r.vis[k] \in S, "visits-position-outside-range")
  \cup R(r.capped \/ r.vis = RowMajor(S), "visited-sequence")
  \cup R(r.size = Cardinality(S), "size")

GridReasons(r) ==
  CASE r.f = "pos_range" ->
         Walk(r, RangeSet(r.min, r.sup))
         \cup R(r.rmin = r.min /\ r.rsup = r.sup, "min-sup-accessors")
    [] r.f = "whole_range" -> Walk(r, Positions(r.dim))
    [] r.f \in {"pos_ref_range", "whole_ref_range"} ->
         LET S == IF r.f = "pos_ref_range" THEN RangeSet(r.min, r.sup) ELSE Positions(r.gsize)
             g == SrcGrid(r.gsize, r.gen)
         IN
         R(S \subseteq Positions(r.gsize), "HARNESS-PRECONDITION")
         \cup Walk(r, S)
         \cup R(Len(r.vals) = Len(r.vis)
                /\ \A k \in 1..Len(r.vis) : r.vis[k] \in DOMAIN g.cell => r.vals[k] = g.cell[r.vis[k]], "element-at-position")
    [] r.f = "offset" ->
         LET P == Positions(r.size) IN
         R({r.ps[k] : k \in 1..Len(r.ps)} = P /\ Len(r.ps) = Cardinality(P) /\ Len(r.offs) = Len(r.ps), "HARNESS-PRECONDITION")
         \cup R(\A k \in 1..Len(r.ps) : r.ps[k] \in P => r.offs[k] = Offset(r.ps[k], r.size), "offset-value")
         \cup R({r.offs[k] : k \in 1..Len(r.offs)} = 0..(Content(r.size) - 1), "offset-not-bijective")
    [] r.f = "at" ->
         LET g == SrcGrid(r.gsize, r.gen)
             Opt(k, some, val) == IF some[k] = 1 THEN <<val[k]>> ELSE <<>>
         IN
         R(Positions(r.gsize) \subseteq {r.ps[k] : k \in 1..Len(r.ps)}, "HARNESS-PRECONDITION")
         \cup R(\A k \in 1..Len(r.ps) : Opt(k, r.some, r.val) = AtOptional(g, r.ps[k]), "at_optional")
         \cup R(\A k \in 1..Len(r.ps) : Opt(k, r.somec, r.valc) = AtOptional(g, r.ps[k]), "at_optional-const")
    [] r.f = "in_range" ->
         R(Positions(r.gsize) \subseteq {r.ps[k] : k \in 1..Len(r.ps)}, "HARNESS-PRECONDITION")
         \cup R(\A k \in 1..Len(r.ps) : r.inr[k] = Bool01(InRange(r.ps[k], r.gsize)), "in_range")
         \cup R(\A k \in 1..Len(r.ps) : r.ird[k] = Bool01(InRange(r.ps[k], r.gsize)), "in_range_dim")
    [] r.f = "construct" ->
         GridObs(r, CASE r.kind = "fn" -> SrcGrid(r.size, r.gen)
                      [] r.kind = "value" -> GridOf(r.size, LAMBDA p : r.gen[1])
                      [] r.kind = "default" -> EmptyGrid(r.N))
    [] r.f = "resize" ->
         GridObs(r, Resize(SrcGrid(r.size, r.gen), r.nsize, LAMBDA p : Lin(r.igen, p)))
    [] r.f = "map" ->
         GridObs(r, MapGrid(SrcGrid(r.size, r.gen), LAMBDA x : r.fa * x + r.fb))
    [] r.f = "apply" ->
         GridObs(r, ApplyGrids([k \in 1..Len(r.sizes) |-> SrcGrid(r.sizes[k], r.gens[k])], LAMBDA xs : Comb(r.co, xs)))
    [] r.f = "fill" ->
         GridObs(r, FillGrid(SrcGrid(r.size, r.gen), LAMBDA p : Lin(r.fgen, p)))
    [] r.f = "clamped_min" ->
         R(Len(r.ps) = Len(r.rs) /\ Len(r.ps) > 0, "HARNESS-PRECONDITION")
         \cup R(\A k \in 1..Len(r.ps) : r.rs[k] = ClampedMin(r.ps[k]), "clamped_min")
    [] r.f = "clamped_sup" ->
         R(Len(r.ps) = Len(r.rs) /\ Len(r.ps) > 0, "HARNESS-PRECONDITION")
         \cup R(\A k \in 1..Len(r.ps) : r.rs[k] = ClampedSup(r.ps[k], r.size), "clamped_sup")
    [] r.f = "clamped_sup_signed" ->
         R(Len(r.ps) = Len(r.rs) /\ Len(r.ps) > 0, "HARNESS-PRECONDITION")
         \cup R(\A k \in 1..Len(r.ps) : r.rs[k] = ClampedSupSigned(r.ps[k], r.size), "clamped_sup_signed")
    [] r.f = "stopped" -> {"driver-stopped-after-runaway-iteration"}
    [] OTHER -> {"unknown-record-kind"}
=============================================================================
