SPECIFICATION Spec
CONSTANTS
  NL = 3
  NE = 4
  AbsBug = "none"
VIEW View
INVARIANTS TypeOK LawMembersAlive LawNoDup LawFrame
CHECK_DEADLOCK FALSE
