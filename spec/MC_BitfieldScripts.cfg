SPECIFICATION ISpec
CONSTANTS
  N <- EnvN
  W <- EnvW
  Bug <- EnvBug
  FullOps <- EnvFull
VIEW IView
INVARIANTS ITypeOK Refines
CONSTRAINT EmitScripts
CHECK_DEADLOCK FALSE
