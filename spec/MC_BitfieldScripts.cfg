SPECIFICATION ISpec
CONSTANTS
  N <- EnvN
  W <- EnvW
  Bug <- EnvBug
VIEW IView
INVARIANTS ITypeOK Refines
CONSTRAINT EmitScripts
CHECK_DEADLOCK FALSE
