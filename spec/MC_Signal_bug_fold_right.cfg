SPECIFICATION SSpec
CONSTANTS
  NL = 2
  NE = 2
  AbsBug = "none"
  SigBug = "fold_right"
  NB = 1
VIEW SView
INVARIANTS LawCallExplained
CHECK_DEADLOCK FALSE
