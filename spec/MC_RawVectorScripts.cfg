SPECIFICATION Spec
CONSTANTS
  NV = 2
  NB = 1
  Val = {0, 1}
  MaxLen = 2
  MaxW = 1
VIEW View
INVARIANTS TypeOK
CONSTRAINT EmitScripts
CHECK_DEADLOCK FALSE
