------------------------------ MODULE Algebra ------------------------------
(* C04 - reference model of fcppt::optional, fcppt::either and fcppt::variant.

   Values are tagged records:
     optional<T>        [t |-> "none"]            | [t |-> "some", v |-> x]
     either<F,S>        [t |-> "fail", v |-> f]   | [t |-> "succ", v |-> s]
     variant<T1..Tn>    [t |-> i, v |-> x]        (i = 1-based index of the held alternative)
   The element domain is D = 0..N-1.  A continuation D -> R is a *table*: the sequence
   <<r_0, ..., r_(N-1)>> of its results (table[x+1] is its value at x); a binary continuation
   is a table of tables; a visitor of a variant is indexed by [tag][x+1]; a nullary
   continuation is represented by the value it returns.  Tables are plain sequences so that
   the same operators are used by the model check (tables enumerated as [1..N -> R]) and by
   the judge of recorded calls (tables logged by the harness as JSON arrays).

   Every combinator is an operator returning [res, calls]: the result and the predicted
   sequence of continuation invocations.  A call is [fn, i, args]: fn names the continuation
   (its role in the combinator's signature), i is an index where a combinator receives a
   family of continuations (variant::match, either::first_success; 0 otherwise) and args is
   the sequence of argument values it was invoked with.

   The definitions follow the documentation (doxygen comments of the headers under
   fcppt/optional, fcppt/either, fcppt/variant, fcppt/monad).  Bug # "none" re-introduces one
   deliberate defect into one operator; it exists only so that the check can show that every
   law below is able to fail (vacuity guards). *)
EXTENDS Naturals, Sequences, FiniteSets

CONSTANTS N,    \* size of the element domain
          Bug   \* "none", or the name of a deliberately wrong variant (vacuity guard)

D == 0..(N - 1)

None == [t |-> "none"]
Some(x) == [t |-> "some", v |-> x]
IsSome(o) == o.t = "some"
Opt(S) == {None} \cup {Some(x) : x \in S}

Fail(x) == [t |-> "fail", v |-> x]
Succ(x) == [t |-> "succ", v |-> x]
IsSucc(e) == e.t = "succ"
IsFail(e) == e.t = "fail"
Either(F, S) == {Fail(x) : x \in F} \cup {Succ(x) : x \in S}

Var(i, x) == [t |-> i, v |-> x]
Variant(Ds) == UNION {{Var(i, x) : x \in Ds[i]} : i \in DOMAIN Ds}

Call(fn, i, args) == [fn |-> fn, i |-> i, args |-> args]
R(res, calls) == [res |-> res, calls |-> calls]
Pure(res) == R(res, <<>>)

(* table application *)
Ap1(f, x) == f[x + 1]
Ap2(f, x, y) == f[x + 1][y + 1]
RECURSIVE ApN(_, _)
ApN(f, xs) == IF xs = <<>> THEN f ELSE ApN(f[Head(xs) + 1], Tail(xs))

Vals(xs) == [i \in DOMAIN xs |-> xs[i].v]
Rev(xs) == [i \in DOMAIN xs |-> xs[Len(xs) + 1 - i]]
Min(S) == CHOOSE m \in S : \A k \in S : m <= k

(* ------------------------------------------------------------------ optional *)

\* maybe: "If _optional is set to x, then _transform(x) is returned. Otherwise, the result of
\* _default is returned."
OptMaybe(o, d, f) ==
  IF IsSome(o) THEN R(Ap1(f, o.v), <<Call("f", 0, <<o.v>>)>>)
  ELSE R(d, <<Call("d", 0, <<>>)>>)

\* maybe_void: the same without a default and without a result (res is the constant 0)
OptMaybeVoid(o) ==
  IF IsSome(o) THEN R(0, <<Call("f", 0, <<o.v>>)>>) ELSE R(0, <<>>)

\* map: "If _source is set to x, then make(_function(x)) is returned. Otherwise, the empty
\* optional is returned."
OptMap(o, f) ==
  IF IsSome(o) THEN R(Some(IF Bug = "map_const" THEN 0 ELSE Ap1(f, o.v)), <<Call("f", 0, <<o.v>>)>>)
  ELSE IF Bug = "map_absent_call" THEN R(None, <<Call("f", 0, <<0>>)>>)
  ELSE Pure(None)

\* bind: "If _source is set to x, then _function(x) is returned. Otherwise, the empty optional"
OptBind(o, k) ==
  IF IsSome(o)
  THEN R(IF Bug = "bind_ignores_function" THEN o
         ELSE IF Bug = "bind_post" /\ Ap1(k, o.v) = Some(0) THEN None
         ELSE Ap1(k, o.v), <<Call("f", 0, <<o.v>>)>>)
  ELSE Pure(None)

\* join: "If _source is set to optional{x}, then optional{x} is returned. Otherwise empty."
OptJoin(oo) == Pure(IF IsSome(oo) /\ Bug # "join_drop" THEN oo.v ELSE None)

\* apply: "If o_1,...,o_n are set to x_1,...,x_n, then object{_function(x_1,...,x_n)} is
\* returned. Otherwise, the empty optional is returned."
OptApply(f, os) ==
  IF \A i \in DOMAIN os : IsSome(os[i])
  THEN R(Some(ApN(f, IF Bug = "apply_swapped" THEN Rev(Vals(os)) ELSE Vals(os))),
         <<Call("f", 0, Vals(os))>>)
  ELSE Pure(None)

\* filter: "If _source is set to x and _function(x) returns true, _source is returned.
\* Otherwise, the empty optional is returned."
OptFilter(o, p) ==
  IF IsSome(o)
  THEN R(IF Ap1(p, o.v) = (Bug # "filter_negated") THEN o ELSE None,
         IF Bug = "filter_twice" THEN <<Call("p", 0, <<o.v>>), Call("p", 0, <<o.v>>)>>
         ELSE <<Call("p", 0, <<o.v>>)>>)
  ELSE Pure(None)

\* alternative: "If _optional1 is not nothing, the result is _optional1, otherwise the result
\* of _optional2 is returned."   (g = the optional the nullary function returns)
OptAlternative(o, g) ==
  IF IsSome(o) /\ Bug # "alternative_always_second" THEN Pure(o) ELSE R(g, <<Call("g", 0, <<>>)>>)

\* combine: "If _optional1 is set to x1 and _optional2 is set to x2, then the result is
\* Optional(_function(x1, x2)). Otherwise, if at least one optional is set, that optional is
\* returned."  (and the empty optional if none is)
OptCombine(o1, o2, f) ==
  IF IsSome(o1) /\ IsSome(o2)
  THEN R(Some(Ap2(f, o1.v, o2.v)), <<Call("f", 0, <<o1.v, o2.v>>)>>)
  ELSE IF Bug = "combine_swap" THEN Pure(IF IsSome(o1) THEN o2 ELSE o1)
  ELSE Pure(IF IsSome(o1) THEN o1 ELSE o2)

\* cat: "For every element e in _source, if e is set to x, then x is inserted into the target"
IsSomeOp(o) == IsSome(o)
OptCat(xs) ==
  Pure(IF Bug = "cat_reverse" THEN Rev(Vals(SelectSeq(xs, IsSomeOp))) ELSE Vals(SelectSeq(xs, IsSomeOp)))

\* sequence: "If there is an i such that o_i is nothing, then nothing is returned. Otherwise
\* ... object<ResultContainer>{v_1,...,v_n} is returned."
OptSequence(xs) ==
  Pure(IF \E i \in DOMAIN xs : ~IsSome(xs[i]) THEN None ELSE Some(Vals(xs)))

\* from: "If _optional is set to x, then x is returned. Otherwise, the result of _default"
OptFrom(o, d) ==
  IF IsSome(o) THEN Pure(o.v) ELSE R(d, <<Call("d", 0, <<>>)>>)

\* maybe_multi: "If _optionals are set to x_1..x_n, then _transform(x_1..x_n) is returned.
\* Otherwise, the result of _default is returned."
OptMaybeMulti(d, f, os) ==
  IF (\A i \in DOMAIN os : IsSome(os[i])) /\ Bug # "maybe_multi_default"
  THEN R(ApN(f, Vals(os)), <<Call("f", 0, Vals(os))>>)
  ELSE R(d, <<Call("d", 0, <<>>)>>)

\* make_if: "If _is_set is true, then _function() is returned as an optional. Otherwise empty"
OptMakeIf(b, g) == IF b THEN R(Some(g), <<Call("g", 0, <<>>)>>) ELSE Pure(None)

\* comparison.hpp: equal iff both empty or both set to equal values; operator< compares
\* has_value() if one or both are empty, the values otherwise.
OptEq(a, b) == Pure(a = b)
OptNe(a, b) == Pure(a # b)
OptLess(a, b) ==
  Pure(IF IsSome(a) /\ IsSome(b) THEN a.v < b.v
       ELSE IF Bug = "less_flip" THEN ~IsSome(b) ELSE ~IsSome(a) /\ IsSome(b))

(* ------------------------------------------------------------------ either *)

\* match: "If _either is set to success s, then _success_function(s) is returned. Otherwise
\* ... failure f and _failure_function(f) is returned."
EitMatch(e, ff, sf) ==
  IF IsSucc(e) THEN R(Ap1(sf, e.v), <<Call("sf", 0, <<e.v>>)>>)
  ELSE R(Ap1(ff, e.v), <<Call("ff", 0, <<e.v>>)>>)

EitMap(e, f) ==
  IF IsSucc(e) THEN R(Succ(Ap1(f, e.v)), <<Call("f", 0, <<e.v>>)>>) ELSE Pure(e)

EitMapFailure(e, f) ==
  IF IsFail(e)
  THEN R(Fail(IF Bug = "map_failure_twice" THEN Ap1(f, Ap1(f, e.v)) ELSE Ap1(f, e.v)),
         <<Call("f", 0, <<e.v>>)>>)
  ELSE Pure(e)

\* bind: "If _either is set to success s, then _function(s) is returned. Otherwise, the
\* failure in _either is returned."
EitBind(e, k) ==
  IF IsSucc(e)
  THEN R(IF Bug = "either_bind_post" /\ Ap1(k, e.v) = Succ(0) THEN Fail(0) ELSE Ap1(k, e.v),
         <<Call("f", 0, <<e.v>>)>>)
  ELSE IF Bug = "either_bind_failure" THEN Pure(Fail(0))
  ELSE Pure(e)

\* join: outer failure f_1 -> f_1; inner failure f_2 -> f_2; else the inner success
EitJoin(ee) == Pure(IF IsSucc(ee) THEN ee.v ELSE IF Bug = "either_join_outer" THEN Fail(0) ELSE ee)

\* apply: "If there is a smallest i such that e_i is set to failure f, then f is returned.
\* Otherwise ... the result is _function(s_1,...,s_n)."
EitApply(f, es) ==
  LET fails == {i \in DOMAIN es : IsFail(es[i])} IN
  IF fails = {} THEN R(Succ(ApN(f, Vals(es))), <<Call("f", 0, Vals(es))>>)
  ELSE IF Bug = "apply_last_failure" THEN Pure(es[CHOOSE m \in fails : \A k \in fails : k <= m])
  ELSE Pure(es[Min(fails)])

\* sequence: first failure, else the container of all successes
EitSequence(es) ==
  LET fails == {i \in DOMAIN es : IsFail(es[i])} IN
  IF fails = {} THEN Pure(Succ(Vals(es)))
  ELSE IF Bug = "sequence_last_failure" THEN Pure(es[CHOOSE m \in fails : \A k \in fails : k <= m])
  ELSE Pure(es[Min(fails)])

\* first_success: rs[i] is what the i-th function returns.  "let i be the smallest index such
\* that f_i() returns success s, in which case the result is s.  If there is no such index,
\* ... the result is (e_1,...,e_n)".  The functions are called in order up to the first
\* success and not beyond it.
EitFirstSuccess(rs) ==
  LET succs == {i \in DOMAIN rs : IsSucc(rs[i])}
      last == IF succs = {} \/ Bug = "first_success_continue" THEN Len(rs) ELSE Min(succs)
      calls == [i \in 1..last |-> Call("g", i, <<>>)]
  IN IF succs = {} THEN R(Fail(Vals(rs)), calls) ELSE R(Succ(rs[Min(succs)].v), calls)

\* loop: script[j] is what the j-th call of _next returns (precondition: some failure occurs).
\* "Calls _next repeatedly until it returns a failure, which is then returned as the result.
\* Each success value that is returned until then is passed to _loop."
EitLoopPre(script) == \E j \in DOMAIN script : IsFail(script[j])
EitLoop(script) ==
  LET k == Min({j \in DOMAIN script : IsFail(script[j])}) IN
  R(script[k].v,
    [j \in 1..(2 * k - 1) |->
       IF j % 2 = 1 THEN Call("n", 0, <<>>)
       ELSE IF Bug = "loop_skips_last" /\ j = 2 * k - 2 THEN Call("n", 0, <<>>)
       ELSE Call("l", 0, <<script[j \div 2].v>>)])

\* from_optional: "If _optional is set to x, then x is returned as the success value,
\* otherwise _failure_function() is returned as the failure value."
EitFromOptional(o, ff) ==
  IF IsSome(o) THEN Pure(Succ(o.v)) ELSE R(Fail(ff), <<Call("ff", 0, <<>>)>>)

\* try_call: out = [t |-> "ret", v |-> s] or [t |-> "throw", v |-> e] is what _function does.
\* "If _function returns s, then the result is success s.  If the function throws an
\* exception e of type Exception, then the result is the failure _to_exception(e)."
EitTryCall(out, te) ==
  IF out.t = "ret" THEN R(Succ(out.v), <<Call("g", 0, <<>>)>>)
  ELSE R(Fail(Ap1(te, out.v)), <<Call("g", 0, <<>>), Call("te", 0, <<out.v>>)>>)

EitSuccessOpt(e) == Pure(IF IsSucc(e) THEN Some(e.v) ELSE None)
EitFailureOpt(e) == Pure(IF IsFail(e) THEN Some(e.v) ELSE None)
EitEq(a, b) == Pure(a = b)
EitNe(a, b) == Pure(a # b)

(* ------------------------------------------------------------------ variant *)

\* match: "Matches _variant with _functions. The functions must be listed in the order the
\* types appear in the variant."   fs[i] = table of the i-th function
VarMatch(v, fs) ==
  LET i == IF Bug = "match_wrong_branch" THEN (v.t % Len(fs)) + 1 ELSE v.t IN
  R(Ap1(fs[i], v.v), <<Call("f", i, <<v.v>>)>>)

\* apply: one visitor, called once with the held element of every variant; vis[tag][x+1]...
RECURSIVE VisN(_, _)
VisN(vis, vs) == IF vs = <<>> THEN vis ELSE VisN(vis[Head(vs).t][Head(vs).v + 1], Tail(vs))
VarApply(vis, vs) == R(VisN(vis, vs), <<Call("f", 0, vs)>>)

VarToOptional(i, v) == Pure(IF v.t = i THEN Some(v.v) ELSE None)
VarHoldsType(i, v) == Pure(v.t = i)

\* the accessors of variant::object (object_decl.hpp): type_index "Returns the index of the held type"
\* - the tag of the tagged union, 1-based here; is_invalid: "This can only happen if an assignment of
\* a different type throws an exception" (never for the values driven); get_unsafe<U>: "Returns a
\* reference to the held type" - precondition: U is the held type (the harness only asks for it)
VarIndex(v) == Pure([idx |-> IF Bug = "index_zero_based" THEN v.t - 1 ELSE v.t, invalid |-> FALSE])
VarGet(v) == Pure(v.v)

\* compare: "The two variants are equal if they hold the same type T and
\* _compare(_left.get<T>(), _right.get<T>()) holds."   c[tag][x+1][y+1]
VarCompare(a, b, c) ==
  IF a.t = b.t THEN R(c[a.t][a.v + 1][b.v + 1], <<Call("c", a.t, <<a.v, b.v>>)>>)
  ELSE Pure(Bug = "compare_ignores_type")

\* comparison.hpp: equal iff same type and equal values; less iff (type_index, value) is
\* lexicographically before
VarEq(a, b) == Pure(a = b)
VarNe(a, b) == Pure(a # b)
VarLess(a, b) ==
  Pure(IF Bug = "var_less_value_only" THEN a.v < b.v ELSE a.t < b.t \/ (a.t = b.t /\ a.v < b.v))

(* ================================================================== extension round
   The rest of the optional / either / variant / monad API.

   References.  fcppt::optional::reference<T> is optional<fcppt::reference<T>>: it does not own the
   object.  A store is a sequence of cells <<v_1, ..., v_n>>; a reference (and a non-null pointer) is
   the index of a cell, the null pointer is 0; Ref(i) = [ref |-> i]. *)
Ref(i) == [ref |-> i]

\* from_pointer: "If _pointer is the null pointer, the result will be empty. Otherwise, the result
\* will contain a reference to *_pointer."
OptFromPointer(p) ==
  Pure(IF p = 0 THEN (IF Bug = "from_pointer_null_some" THEN Some(Ref(1)) ELSE None) ELSE Some(Ref(p)))
\* to_pointer: "If _optional is empty, returns nullptr. Otherwise, returns the address of the
\* referenced object of _optional."
OptToPointer(o) == Pure(IF IsSome(o) THEN o.v.ref ELSE 0)
\* copy_value: "Copies the value of an optional reference"
OptCopyValue(store, o) ==
  Pure(IF IsSome(o) THEN Some(IF Bug = "copy_value_first_cell" THEN store[1] ELSE store[o.v.ref]) ELSE None)
\* deref: "If the optional is set to x, make_(c)ref(*x) is returned."  (x = a pointer-like value
\* designating a cell)
OptDeref(o) == Pure(IF IsSome(o) THEN Some(Ref(o.v)) ELSE None)
\* optional_reference section of optional.doxygen: "if an optional holds a reference it does not hold
\* the actual object, so changing the object behind the reference ... has different semantics":
\* writing through an optional reference changes the referenced cell of the store and nothing else;
OptRefWrite(store, o, y) == Pure(IF IsSome(o) THEN [store EXCEPT ![o.v.ref] = y] ELSE store)
\* whereas an optional<T> holds its own copy: writing to a copy leaves the original alone
\* (result = <<original, modified copy>>)
OptValueCopyWrite(o, y) == Pure(<<o, IF IsSome(o) THEN Some(y) ELSE None>>)
\* assign: "Assigns _arg to _optional and returns a reference to _arg."  The harness then writes y
\* through the returned reference: result = [ret (value seen through the reference right after the
\* assignment), opt (the optional after the write)]
OptAssign(o, x, y) ==
  Pure([ret |-> x, opt |-> IF Bug = "assign_returns_copy" THEN Some(x) ELSE Some(y)])
\* nothing: "Objects of this class implicitly convert into empty fcppt::optional::object."
OptNothing == Pure(None)
\* make: "Wraps a value into an optional."
OptMake(x) == Pure(Some(x))
\* to_exception: "If _optional is set to x, then x is returned. Otherwise, the result of
\* _make_exception is thrown as an exception."  (e = the value carried by the exception made)
Ret(x) == [t |-> "ret", v |-> x]
Thrown(e) == [t |-> "throw", v |-> e]
OptToException(o, e) ==
  IF IsSome(o) /\ Bug # "to_exception_always_throws" THEN Pure(Ret(o.v)) ELSE R(Thrown(e), <<Call("mk", 0, <<>>)>>)

\* output.hpp (optional): N for nothing, "J " followed by the value otherwise; either and variant
\* output the held value.  Texts are sequences of code points; an element of D prints as its digit.
ShowD(x) == <<48 + x>>
ShowOpt(o) == IF IsSome(o) THEN (IF Bug = "output_no_space" THEN <<74>> ELSE <<74, 32>>) \o ShowD(o.v) ELSE <<78>>
ShowOptOpt(oo) == IF IsSome(oo) THEN <<74, 32>> \o ShowOpt(oo.v) ELSE <<78>>
OptOutput(o) == Pure(ShowOpt(o))
OptOptOutput(oo) == Pure(ShowOptOpt(oo))
EitOutput(e) == Pure(ShowD(e.v))
VarOutput(v) == Pure(ShowD(v.v))

\* either::construct: "If _value is true then _success() is returned. Otherwise, _failure() is
\* returned."
EitConstruct(b, s, f) ==
  IF b = (Bug # "construct_inverted") THEN R(Succ(s), <<Call("s", 0, <<>>)>>) ELSE R(Fail(f), <<Call("f", 0, <<>>)>>)
\* error_from_optional: "If _optional is set to x, then x is returned as the failure value."
\* (otherwise success of no_error = fcppt::unit, modelled as 0)
EitErrorFromOptional(o) == Pure(IF IsSome(o) THEN Fail(o.v) ELSE Succ(0))
\* make_success / make_failure: "Create an either with a success / failure."
EitMakeSuccess(x) == Pure(Succ(x))
EitMakeFailure(x) == Pure(IF Bug = "make_failure_is_success" THEN Succ(x) ELSE Fail(x))
\* either::to_exception: "If _either is set to success s, then s is returned. Otherwise, _either is
\* set to failure f and the result of _make_exception(f) is thrown as an exception."
EitToException(e, mk) ==
  IF IsSucc(e) THEN Pure(Ret(e.v)) ELSE R(Thrown(Ap1(mk, e.v)), <<Call("mk", 0, <<e.v>>)>>)
\* sequence_error: "The algorithms calls _function(x_1), ..., _function(x_i), where _function(x_i)
\* is either the first call that returns a failure, in which case the failure is returned as the
\* result, or i=n, in which case success is returned."   f : D -> Either(F, unit)
EitSequenceError(xs, f) ==
  LET fails == {i \in DOMAIN xs : IsFail(Ap1(f, xs[i]))}
      last == IF fails = {} \/ Bug = "sequence_error_continues" THEN Len(xs) ELSE Min(fails)
  IN R(IF fails = {} THEN Succ(0) ELSE Ap1(f, xs[Min(fails)]),
       [i \in 1..last |-> Call("f", 0, <<xs[i]>>)])

\* variant assignment (holds_type.hpp: "The currently held type of a variant is the type passed to
\* its constructor or assignment operator"): after v = w the variant equals w; the source of a
\* move keeps its alternative (object_decl.hpp, is_invalid: "This can only happen if an assignment
\* of a different type throws an exception" - so a moved-from variant is never invalid).
\* VarAssign: the target after the assignment; VarAssignSrc: index held by the source afterwards
VarAssign(v, w) == Pure(IF Bug = "assign_keeps_index" THEN Var(v.t, w.v) ELSE w)
VarAssignSrc(v, w) == Pure(w.t)
\* to_optional_ref + write through the reference: changes the held value iff the type is held
VarRefWrite(i, v, y) == Pure(IF v.t = i THEN Var(i, y) ELSE v)
\* dynamic_cast_: "tries to cast _base to T_1 first. If this fails, it tries to cast _base to T_2, and
\* so on. The result of the first cast that succeeds is returned."  types = the class ids T_1..T_n,
\* castable = the set of class ids the dynamic type of _base can be cast to; the result holds
\* alternative i = position of the first castable type (its value, a reference to the object, is 1)
VarDynamicCast(types, castable) ==
  LET ok == {i \in DOMAIN types : types[i] \in castable} IN
  Pure(IF ok = {} THEN None
       ELSE Some(Var(IF Bug = "dynamic_cast_last" THEN CHOOSE m \in ok : \A k \in ok : k <= m ELSE Min(ok), 1)))

\* monad::return_: optional::make / either::make_success
MonadReturnOpt(x) == Pure(Some(x))
MonadReturnEit(x) == Pure(Succ(x))
\* monad::chain: "Calls bind(... bind(bind(_value,l_1),l_2) ... ,l_n)."  The i-th lambda is
\* continuation ("f", i).
ReIndex(calls, i) == [j \in DOMAIN calls |-> Call(calls[j].fn, i, calls[j].args)]
RECURSIVE OptChainFrom(_, _, _), EitChainFrom(_, _, _)
OptChainFrom(r, ks, i) ==
  IF i > Len(ks) THEN r
  ELSE LET b == OptBind(r.res, ks[i]) IN
       IF Bug = "chain_skips_second" /\ i = 2 THEN OptChainFrom(r, ks, i + 1)
       ELSE OptChainFrom(R(b.res, r.calls \o ReIndex(b.calls, i)), ks, i + 1)
OptChain(o, ks) == OptChainFrom(Pure(o), ks, 1)
EitChainFrom(r, ks, i) ==
  IF i > Len(ks) THEN r
  ELSE LET b == EitBind(r.res, ks[i]) IN EitChainFrom(R(b.res, r.calls \o ReIndex(b.calls, i)), ks, i + 1)
EitChain(e, ks) == EitChainFrom(Pure(e), ks, 1)
\* monad::do_ (do-notation): the k-th lambda receives the values bound so far (v_1..v_k) and returns
\* the next monadic value; the result is the last lambda's result; nothing / failure ends the block.
\* ls[k] is a k-ary table.
RECURSIVE OptDoFrom(_, _, _, _), EitDoFrom(_, _, _, _)
OptDoFrom(m, vals, ls, k) ==
  IF k > Len(ls) THEN Pure(m)
  ELSE IF ~IsSome(m) THEN Pure(None)
  ELSE LET vs == Append(vals, m.v)
           rest == OptDoFrom(ApN(ls[k], IF Bug = "do_drops_first" /\ k = 2 THEN <<vs[2], vs[2]>> ELSE vs), vs, ls, k + 1)
       IN R(rest.res, <<Call("f", k, vs)>> \o rest.calls)
OptDo(o, ls) == OptDoFrom(o, <<>>, ls, 1)
EitDoFrom(m, vals, ls, k) ==
  IF k > Len(ls) THEN Pure(m)
  ELSE IF IsFail(m) THEN Pure(m)
  ELSE LET vs == Append(vals, m.v)
           rest == EitDoFrom(ApN(ls[k], vs), vs, ls, k + 1)
       IN R(rest.res, <<Call("f", k, vs)>> \o rest.calls)
EitDo(e, ls) == EitDoFrom(e, <<>>, ls, 1)

(* ------------------------------------------------------------------ comparing call logs *)

SameCall(a, b) == a.fn = b.fn /\ a.i = b.i /\ a.args = b.args
SeqCallsEq(p, a) == Len(p) = Len(a) /\ \A j \in DOMAIN p : SameCall(p[j], a[j])
Count(c, s) == Cardinality({j \in DOMAIN s : SameCall(c, s[j])})
\* equal as multisets (used where the documentation does not fix the order of the calls)
BagCallsEq(p, a) ==
  /\ Len(p) = Len(a)
  /\ \A j \in DOMAIN p : Count(p[j], p) = Count(p[j], a)
\* per continuation, the same calls in the same order (interleaving between different
\* continuations left open)
SameFn(a, b) == a.fn = b.fn /\ a.i = b.i
ProjIdx(c, s) == {j \in DOMAIN s : SameFn(c, s[j])}
RECURSIVE ProjSeq(_, _)
ProjSeq(c, s) ==
  IF s = <<>> THEN <<>>
  ELSE IF SameFn(c, Head(s)) THEN <<Head(s)>> \o ProjSeq(c, Tail(s)) ELSE ProjSeq(c, Tail(s))
ProjCallsEq(p, a) ==
  /\ Len(p) = Len(a)
  /\ \A j \in DOMAIN p : SeqCallsEq(ProjSeq(p[j], p), ProjSeq(p[j], a))
  /\ \A j \in DOMAIN a : ProjIdx(a[j], p) # {}
=============================================================================
