SPECIFICATION Spec
CONSTANTS
  N = 2
  Rad = 1
  Bug = 1
CHECK_DEADLOCK FALSE
INVARIANTS PtsLaw
