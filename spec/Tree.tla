----------------------------- MODULE Tree -----------------------------
(* Abstract specification of fcppt::container::tree::object<T> (property C09).

   A tree is a plain recursive value  [v |-> label, k |-> <<sub-trees>>] ; the
   forest under test is a tuple of NS named slots, each dead or holding a tree.
   A node is addressed by (slot, path) where a path is the sequence of 0-based
   child indices leading from the slot's root to the node.  The parent relation
   is DERIVED from containment (the parent of path p is Front(p)); the abstract
   model has no parent pointer that could go stale - that is the point: the real
   code's parent() must agree with containment after every operation.

   One case of Eff per public operation defines the new forest AND the returned
   value (reference / optional / bool).  Operands are arbitrary nodes - roots and
   inner nodes.  Where an operation is applied to an inner node (swap, copy and
   move assignment, move construction from a node) the node STAYS WHERE IT IS in
   its parent's child list and only its label and children change.

   Assignment FROM a proper descendant (node = std::move(first child of node), "replace a node by one
   of its children") is driven: the destination takes the label and children the source had
   before the call; the source, owned by the destination's old child list, dies with it.
   Assignment from an ancestor and swap of related nodes stay excluded (preconditions).

   Left open on purpose (weaker reading, see docs/notes_C09.md):
     - the label and children of a moved-from node (listed in `free`); only the
       well-formedness of its links is demanded,
     - the relative order sort() gives to children with equal labels.

   The same operators are used by MC_Tree*.cfg (all histories over small
   constants, laws, script emission), by TreeImpl.tla (pointer-level transcription
   run in lock-step) and by TreeTrace.tla (judge of the real code's logs). *)
EXTENDS Naturals, Integers, Sequences, FiniteSets, TLC, Json

CONSTANTS NS,        \* number of slots
          Val,       \* labels used by the model checker
          MaxNodes   \* bound on the total number of nodes explored by the model checker

-----------------------------------------------------------------------------
(* sequences *)
InsertAt(s, p, xs) == SubSeq(s, 1, p) \o xs \o SubSeq(s, p + 1, Len(s))
RemoveRange(s, a, b) == SubSeq(s, 1, a) \o SubSeq(s, b + 1, Len(s))
Front(s) == SubSeq(s, 1, Len(s) - 1)
Range(s) == {s[i] : i \in 1..Len(s)}
IsPrefix(p, q) == Len(p) <= Len(q) /\ SubSeq(q, 1, Len(p)) = p

(* trees *)
Leaf(x) == [v |-> x, k |-> <<>>]
Husk(t) == [v |-> t.v, k |-> <<>>]     \* what the model resolves a moved-from node to

RECURSIVE Size(_)
RECURSIVE SumSizes(_)
Size(t) == 1 + SumSizes(t.k)
SumSizes(ks) == IF ks = <<>> THEN 0 ELSE Size(Head(ks)) + SumSizes(Tail(ks))

RECURSIVE HasPath(_, _)
HasPath(t, p) ==
  IF p = <<>> THEN TRUE
  ELSE Head(p) \in 0..(Len(t.k) - 1) /\ HasPath(t.k[Head(p) + 1], Tail(p))

RECURSIVE Sub(_, _)
Sub(t, p) == IF p = <<>> THEN t ELSE Sub(t.k[Head(p) + 1], Tail(p))

RECURSIVE Put(_, _, _)     \* replace the sub-tree at path p by u
Put(t, p, u) == IF p = <<>> THEN u ELSE [t EXCEPT !.k[Head(p) + 1] = Put(@, Tail(p), u)]

-----------------------------------------------------------------------------
(* Reference functions - "the same computations on a plain recursive model". *)

(* pre_order: the labels in pre-order ... *)
RECURSIVE PreOrder(_)
RECURSIVE PreOrderSeq(_)
PreOrder(t) == <<t.v>> \o PreOrderSeq(t.k)
PreOrderSeq(ks) == IF ks = <<>> THEN <<>> ELSE PreOrder(Head(ks)) \o PreOrderSeq(Tail(ks))

(* ... and the paths of the nodes in pre-order (node i of a DFS dump has path PathsOf(t)[i]) *)
RECURSIVE PathsOf(_)
RECURSIVE PathsOfKids(_, _)
PathsOf(t) == << <<>> >> \o PathsOfKids(t.k, 1)
PathsOfKids(ks, i) ==
  IF i > Len(ks) THEN <<>>
  ELSE LET ps == PathsOf(ks[i])
       IN [j \in 1..Len(ps) |-> <<i - 1>> \o ps[j]] \o PathsOfKids(ks, i + 1)

(* 0-based pre-order index of the node at path p *)
RECURSIVE IndexOfPath(_, _)
IndexOfPath(t, p) ==
  IF p = <<>> THEN 0
  ELSE 1 + SumSizes(SubSeq(t.k, 1, Head(p))) + IndexOfPath(t.k[Head(p) + 1], Tail(p))

(* to_root: the node itself, its parent, ..., the root *)
ToRoot(p) == [i \in 1..(Len(p) + 1) |-> SubSeq(p, 1, Len(p) + 1 - i)]

(* depth(): 1 for a leaf, else 1 + the maximum over the children *)
RECURSIVE Depth(_)
RECURSIVE MaxDepth(_)
Depth(t) == 1 + MaxDepth(t.k)
MaxDepth(ks) ==
  IF ks = <<>> THEN 0
  ELSE LET a == Depth(Head(ks))
           b == MaxDepth(Tail(ks))
       IN IF a >= b THEN a ELSE b

(* level(): 0 for a node without parent, else the parent's level plus one *)
Level(p) == Len(p)

(* child_position(parent, child): the offset of the child in its parent's child list *)
ChildPosition(p) == p[Len(p)]

(* map(tree, f): same shape, every label replaced by f[label] *)
RECURSIVE Map(_, _)
Map(t, f) == [v |-> f[t.v], k |-> [i \in 1..Len(t.k) |-> Map(t.k[i], f)]]

(* operator==: labels equal and recursively the children *)
RECURSIVE Equal(_, _)
Equal(t, u) ==
  /\ t.v = u.v
  /\ Len(t.k) = Len(u.k)
  /\ \A i \in 1..Len(t.k) : Equal(t.k[i], u.k[i])

(* sort(): by label with operator< (desc = FALSE) or with the predicate > (desc = TRUE).
   The model resolves ties stably (std::list::sort); the judge accepts any sorted permutation. *)
Before(x, y, desc) == IF desc THEN y < x ELSE x < y
RECURSIVE InsertSorted(_, _, _)
InsertSorted(s, t, desc) ==
  IF s = <<>> THEN <<t>>
  ELSE IF Before(t.v, Head(s).v, desc) THEN <<t>> \o s
  ELSE <<Head(s)>> \o InsertSorted(Tail(s), t, desc)
RECURSIVE StableSort(_, _)
StableSort(s, desc) ==
  IF s = <<>> THEN <<>> ELSE InsertSorted(StableSort(Front(s), desc), s[Len(s)], desc)
IsSorted(s, desc) == \A i \in 1..(Len(s) - 1) : ~Before(s[i + 1].v, s[i].v, desc)
Count(s, u) == Cardinality({i \in 1..Len(s) : s[i] = u})
SameBag(s, t) == Len(s) = Len(t) /\ \A u \in Range(s) \cup Range(t) : Count(s, u) = Count(t, u)

-----------------------------------------------------------------------------
(* The log context's use of the tree (libs/log/src/log/context.cpp, impl/find_or_create_child.cpp).
   A node of the context tree is labelled (name, optional level); here the label is the integer
   name * 10 + level with name 0 = the empty name of the root, level 0..5 = verbose..fatal and
   6 = no level.  log.doxygen: "A location is a list of fcppt::log::name values"; "An
   fcppt::log::context associates locations with fcppt::log::optional_level values";
   context.hpp, set(): "Updates the log level at a location. Note that every location below is also
   updated."; constructor: "The root log level which will be the default for new log locations".
   find_or_create_child(node, name): the first child with that name, else
   node.push_back(context_tree_node{name, node.value().level()}) - a new location starts with the
   CURRENT level of its parent (the reading C19's LogContext.tla takes, too).
   context::set / object construction reach a location by folding find_or_create_child along it. *)
LogName(v) == v \div 10
LogLevel(v) == v % 10
LogLabel(n, l) == n * 10 + l
FirstChildNamed(t, n) ==
  LET S == {i \in 1..Len(t.k) : LogName(t.k[i].v) = n}
  IN IF S = {} THEN 0 ELSE CHOOSE i \in S : \A j \in S : i <= j
RECURSIVE LogFind(_, _, _)      \* (tree, path reached so far, remaining names) -> [t, p]
LogFind(t, p, names) ==
  IF names = <<>> THEN [t |-> t, p |-> p]
  ELSE LET node == Sub(t, p)
           i == FirstChildNamed(node, Head(names))
       IN IF i # 0 THEN LogFind(t, Append(p, i - 1), Tail(names))
          ELSE LogFind(Put(t, p, [node EXCEPT !.k = Append(@, Leaf(LogLabel(Head(names), LogLevel(node.v))))]),
                       Append(p, Len(node.k)), Tail(names))
RECURSIVE SetLevelAll(_, _)
SetLevelAll(t, l) == [v |-> LogLabel(LogName(t.v), l), k |-> [i \in 1..Len(t.k) |-> SetLevelAll(t.k[i], l)]]
(* the path of an EXISTING location, or <<-1>> *)
RECURSIVE LogPath(_, _, _)
LogPath(t, p, names) ==
  IF names = <<>> THEN p
  ELSE LET i == FirstChildNamed(Sub(t, p), Head(names))
       IN IF i = 0 THEN <<-1>> ELSE LogPath(t, Append(p, i - 1), Tail(names))
(* the names from the root down to the node at path p (the root's empty name left out) *)
LogNamesOf(t, p) == [j \in 1..Len(p) |-> LogName(Sub(t, SubSeq(p, 1, j)).v)]

-----------------------------------------------------------------------------
(* forests *)
Dead == [live |-> FALSE, t |-> Leaf(0)]
Live(t) == [live |-> TRUE, t |-> t]
EmptyForest == [i \in 1..NS |-> Dead]

Valid(f, s, p) == s \in 1..NS /\ f[s].live /\ HasPath(f[s].t, p)
At(f, s, p) == Sub(f[s].t, p)
PutAt(f, s, p, u) == [f EXCEPT ![s] = Live(Put(f[s].t, p, u))]

LiveSlots(f) == {s \in 1..NS : f[s].live}
DeadSlots(f) == {s \in 1..NS : ~f[s].live}
RECURSIVE TotalFrom(_, _)
TotalFrom(f, i) == IF i > NS THEN 0 ELSE (IF f[i].live THEN Size(f[i].t) ELSE 0) + TotalFrom(f, i + 1)
Total(f) == TotalFrom(f, 1)
Nodes(f) == UNION {{[s |-> s, p |-> q] : q \in Range(PathsOf(f[s].t))} : s \in LiveSlots(f)}

(* An operation is a record with all of these fields (the harness logs all of them):
   op, first operand (as, ap), second operand (bs, bp), destination slot d (0 = discard the
   result), child offsets pos / pos2 (iterator - begin()), label x, rv (use the T&& overload),
   ss (source slots of ctor_list). *)
BaseOp == [op |-> "", as |-> 0, ap |-> <<>>, bs |-> 0, bp |-> <<>>, d |-> 0, pos |-> 0, pos2 |-> 0,
           x |-> 0, rv |-> FALSE, ss |-> <<>>]
NoRet == [s |-> 0, p |-> <<>>]

SameNode(a) == a.as = a.bs /\ a.ap = a.bp
Related(a) == a.as = a.bs /\ (IsPrefix(a.ap, a.bp) \/ IsPrefix(a.bp, a.ap))    \* equal, ancestor or descendant
BAboveA(a) == a.as = a.bs /\ IsPrefix(a.bp, a.ap)                              \* b is a or an ancestor of a
BBelowA(a) == a.as = a.bs /\ IsPrefix(a.ap, a.bp) /\ a.ap # a.bp                \* b is a proper descendant of a

(* API preconditions.  Excluded as in the standard containers: the operands of swap are distinct
   and neither is an ancestor of the other; the source of an assignment is not the destination
   or one of its ancestors (it may be a descendant); a tree is not moved into its own sub-tree;
   iterators are valid. *)
Pre(f, a) ==
  LET va == Valid(f, a.as, a.ap)
      vb == Valid(f, a.bs, a.bp)
      nk == Len(At(f, a.as, a.ap).k)
      dd(i) == i \in 1..NS /\ ~f[i].live
  IN CASE a.op = "ctor" -> dd(a.d)
       [] a.op = "ctor_list" ->
            /\ dd(a.d)
            /\ \A i \in 1..Len(a.ss) : a.ss[i] \in 1..NS /\ f[a.ss[i]].live
            /\ \A i \in 1..Len(a.ss) : \A j \in 1..Len(a.ss) : i # j => a.ss[i] # a.ss[j]
       [] a.op \in {"copy_ctor", "move_ctor"} -> dd(a.d) /\ va
       [] a.op = "destroy" -> va /\ a.ap = <<>>
       [] a.op \in {"push_back", "push_front", "clear", "sort", "set_value"} -> va
       [] a.op \in {"push_back_tree", "push_front_tree"} -> va /\ vb /\ ~BAboveA(a)
       [] a.op = "insert" -> va /\ a.pos \in 0..nk
       [] a.op = "insert_tree" -> va /\ vb /\ ~BAboveA(a) /\ a.pos \in 0..nk
       [] a.op \in {"pop_back", "pop_front"} -> va /\ (a.d = 0 \/ dd(a.d))
       [] a.op = "erase" -> va /\ a.pos \in 0..(nk - 1)
       [] a.op = "erase_range" -> va /\ a.pos \in 0..nk /\ a.pos2 \in a.pos..nk
       [] a.op = "release" -> va /\ a.pos \in 0..(nk - 1) /\ (a.d = 0 \/ dd(a.d))
       [] a.op \in {"swap", "swap_free"} -> va /\ vb /\ ~Related(a)
       [] a.op \in {"copy_assign", "move_assign"} -> va /\ vb /\ (~Related(a) \/ BBelowA(a))
       [] a.op \in {"eq", "ne"} -> va /\ vb
       [] a.op = "log_ctor" -> dd(a.d) /\ a.x \in 0..6
       [] a.op \in {"log_create", "log_set"} ->
            /\ va /\ a.ap = <<>> /\ a.x \in 0..6
            /\ \A i \in 1..Len(a.ss) : a.ss[i] \in 1..9
            /\ (a.op = "log_create" => a.ss # <<>>)
       [] OTHER -> FALSE

(* Effect of an operation: new forest f, returned reference ret (NoRet if none), returned
   optional's has_value (some), returned bool (rb), and the set `free` of nodes (positions in the
   NEW forest) whose label and children the contract leaves unspecified (moved-from nodes). *)
Eff(f, a) ==
  LET A == At(f, a.as, a.ap)
      B == At(f, a.bs, a.bp)
      R(g, ret, some, rb, free) == [f |-> g, ret |-> ret, some |-> some, rb |-> rb, free |-> free]
      Simple(g) == R(g, NoRet, FALSE, FALSE, {})
      SetA(u) == PutAt(f, a.as, a.ap, u)
      IntoD(g, t) == IF a.d = 0 THEN g ELSE [g EXCEPT ![a.d] = Live(t)]
      nk == Len(A.k)
      \* a.insert(begin() + pos, std::move(b)): b is left behind as a moved-from node, the new
      \* child holds b's former label and children
      InsTree(pos) ==
        LET f1 == PutAt(f, a.bs, a.bp, Husk(B))
            A1 == At(f1, a.as, a.ap)
            f2 == PutAt(f1, a.as, a.ap, [A1 EXCEPT !.k = InsertAt(@, pos, <<B>>)])
            la == Len(a.ap)
            bp2 == IF a.bs = a.as /\ IsPrefix(a.ap, a.bp) /\ Len(a.bp) > la /\ a.bp[la + 1] >= pos
                   THEN [a.bp EXCEPT ![la + 1] = @ + 1] ELSE a.bp
        IN [g |-> f2, free |-> {[s |-> a.bs, p |-> bp2]}]
  IN CASE a.op = "ctor" -> Simple([f EXCEPT ![a.d] = Live(Leaf(a.x))])
       [] a.op = "ctor_list" ->
            \* object(T &&, child_list &&) with the trees of the slots ss moved into the list
            Simple([i \in 1..NS |->
                      IF i = a.d THEN Live([v |-> a.x, k |-> [j \in 1..Len(a.ss) |-> f[a.ss[j]].t]])
                      ELSE IF \E j \in 1..Len(a.ss) : a.ss[j] = i THEN Dead ELSE f[i]])
       [] a.op = "copy_ctor" -> Simple([f EXCEPT ![a.d] = Live(A)])
       [] a.op = "move_ctor" ->
            R([SetA(Husk(A)) EXCEPT ![a.d] = Live(A)], NoRet, FALSE, FALSE, {[s |-> a.as, p |-> a.ap]})
       [] a.op = "destroy" -> Simple([f EXCEPT ![a.as] = Dead])
       [] a.op = "push_back" ->
            R(SetA([A EXCEPT !.k = Append(@, Leaf(a.x))]), [s |-> a.as, p |-> Append(a.ap, nk)], FALSE, FALSE, {})
       [] a.op = "push_front" ->
            R(SetA([A EXCEPT !.k = <<Leaf(a.x)>> \o @]), [s |-> a.as, p |-> Append(a.ap, 0)], FALSE, FALSE, {})
       [] a.op = "push_back_tree" ->
            LET r == InsTree(nk) IN R(r.g, [s |-> a.as, p |-> Append(a.ap, nk)], FALSE, FALSE, r.free)
       [] a.op = "push_front_tree" ->
            LET r == InsTree(0) IN R(r.g, [s |-> a.as, p |-> Append(a.ap, 0)], FALSE, FALSE, r.free)
       [] a.op = "insert" -> Simple(SetA([A EXCEPT !.k = InsertAt(@, a.pos, <<Leaf(a.x)>>)]))
       [] a.op = "insert_tree" -> LET r == InsTree(a.pos) IN R(r.g, NoRet, FALSE, FALSE, r.free)
       [] a.op = "pop_back" ->
            IF nk = 0 THEN Simple(f)
            ELSE R(IntoD(SetA([A EXCEPT !.k = Front(@)]), A.k[nk]), NoRet, TRUE, FALSE, {})
       [] a.op = "pop_front" ->
            IF nk = 0 THEN Simple(f)
            ELSE R(IntoD(SetA([A EXCEPT !.k = Tail(@)]), A.k[1]), NoRet, TRUE, FALSE, {})
       [] a.op = "erase" -> Simple(SetA([A EXCEPT !.k = RemoveRange(@, a.pos, a.pos + 1)]))
       [] a.op = "erase_range" -> Simple(SetA([A EXCEPT !.k = RemoveRange(@, a.pos, a.pos2)]))
       [] a.op = "release" ->
            Simple(IntoD(SetA([A EXCEPT !.k = RemoveRange(@, a.pos, a.pos + 1)]), A.k[a.pos + 1]))
       [] a.op = "clear" -> Simple(SetA([A EXCEPT !.k = <<>>]))
       [] a.op = "sort" -> Simple(SetA([A EXCEPT !.k = StableSort(@, a.x = 1)]))
       [] a.op \in {"swap", "swap_free"} ->
            \* label and children are exchanged; both nodes stay where they are
            Simple(PutAt(PutAt(f, a.as, a.ap, B), a.bs, a.bp, A))
       [] a.op = "copy_assign" -> Simple(SetA(B))
       [] a.op = "move_assign" ->
            IF BBelowA(a)
            THEN Simple(SetA(B))     \* the source was owned by the destination's old children: it is gone
            ELSE R(PutAt(SetA(B), a.bs, a.bp, Husk(B)), NoRet, FALSE, FALSE, {[s |-> a.bs, p |-> a.bp]})
       [] a.op = "set_value" -> Simple(SetA([A EXCEPT !.v = a.x]))
       [] a.op = "eq" -> R(f, NoRet, FALSE, Equal(A, B), {})
       [] a.op = "ne" -> R(f, NoRet, FALSE, ~Equal(A, B), {})
       [] a.op = "log_ctor" ->
            \* context(root level, streams): the tree is the single root node with the empty name
            Simple([f EXCEPT ![a.d] = Live(Leaf(LogLabel(0, a.x)))])
       [] a.op = "log_create" ->
            \* constructing a log object at location ss: find_location + find_child
            LET r == LogFind(A, <<>>, a.ss) IN R(SetA(r.t), [s |-> a.as, p |-> r.p], FALSE, FALSE, {})
       [] a.op = "log_set" ->
            \* context::set(ss, x): reach (create) the location, then update every node below it
            LET r == LogFind(A, <<>>, a.ss)
            IN Simple(SetA(Put(r.t, r.p, SetLevelAll(Sub(r.t, r.p), a.x))))

-----------------------------------------------------------------------------
(* Model: all histories within the node bound. *)
VARIABLES st, hist
vars == <<st, hist>>

Init == st = EmptyForest /\ hist = <<>>

(* every operation instance that is valid in forest f and keeps the total within MaxNodes *)
OpsOf(f) ==
  LET N == Nodes(f)
      dead == DeadSlots(f)
      live == LiveSlots(f)
      D0 == dead \cup {0}
      room == MaxNodes - Total(f)
      B == BaseOp
      T(n) == At(f, n.s, n.p)
      OnA(o, n) == [B EXCEPT !.op = o, !.as = n.s, !.ap = n.p]
      OnAB(o, w) == [B EXCEPT !.op = o, !.as = w[1].s, !.ap = w[1].p, !.bs = w[2].s, !.bp = w[2].p]
      Pairs == N \X N
      Unrel == {w \in Pairs : ~Related(OnAB("", w))}
      Movable == {w \in Pairs : ~BAboveA(OnAB("", w))}
      Below == {w \in Pairs : BBelowA(OnAB("", w))}
      SS == {<<>>} \cup {<<i>> : i \in live} \cup {<<w[1], w[2]>> : w \in {w \in live \X live : w[1] # w[2]}}
      OpsOn(n) ==
        LET nk == Len(T(n).k) IN
             (IF room >= 1
              THEN {[OnA("push_back", n) EXCEPT !.x = x, !.rv = r] : x \in Val, r \in BOOLEAN}
                   \cup {[OnA("push_front", n) EXCEPT !.x = x, !.rv = TRUE] : x \in Val}
                   \cup {[OnA("insert", n) EXCEPT !.pos = p, !.x = x] : p \in 0..nk, x \in Val}
                   \cup {[OnA("move_ctor", n) EXCEPT !.d = d] : d \in dead}
              ELSE {})
        \cup (IF room >= Size(T(n)) THEN {[OnA("copy_ctor", n) EXCEPT !.d = d] : d \in dead} ELSE {})
        \cup {[OnA(o, n) EXCEPT !.d = d] : o \in {"pop_back", "pop_front"}, d \in D0}
        \cup {[OnA("erase", n) EXCEPT !.pos = p] : p \in 0..(nk - 1)}
        \cup {[OnA("erase_range", n) EXCEPT !.pos = w[1], !.pos2 = w[2]] :
                 w \in {w \in (0..nk) \X (0..nk) : w[1] <= w[2]}}
        \cup {[OnA("release", n) EXCEPT !.pos = p, !.d = d] : p \in 0..(nk - 1), d \in D0}
        \cup {OnA("clear", n)}
        \cup {[OnA("sort", n) EXCEPT !.x = x] : x \in {0, 1}}
        \cup {[OnA("set_value", n) EXCEPT !.x = x] : x \in Val}
      OpsOnPair(w) ==
        LET nk == Len(T(w[1]).k) IN
        {[OnAB("insert_tree", w) EXCEPT !.pos = p] : p \in 0..nk}
        \cup {OnAB("push_back_tree", w), OnAB("push_front_tree", w)}
  IN  (IF room >= 1
       THEN {[B EXCEPT !.op = "ctor", !.d = d, !.x = x] : d \in dead, x \in Val}
            \cup {[B EXCEPT !.op = "ctor_list", !.d = d, !.x = x, !.ss = ss] : d \in dead, x \in Val, ss \in SS}
       ELSE {})
  \cup {[B EXCEPT !.op = "destroy", !.as = s] : s \in live}
  \cup UNION {OpsOn(n) : n \in N}
  \cup (IF room >= 1 THEN UNION {OpsOnPair(w) : w \in Movable} ELSE {})
  \cup {OnAB(o, w) : o \in {"swap", "swap_free", "move_assign"}, w \in Unrel}
  \cup {OnAB(o, w) : o \in {"copy_assign", "move_assign"}, w \in Below}
  \cup {OnAB("copy_assign", w) : w \in {w \in Unrel : Size(T(w[2])) - Size(T(w[1])) <= room}}
  \cup {OnAB(o, w) : o \in {"eq", "ne"}, w \in Pairs}

Step(a) ==
  /\ Pre(st, a)
  /\ st' = Eff(st, a).f
  /\ hist' = Append(hist, a)

Next == \E a \in OpsOf(st) : Step(a)

Spec == Init /\ [][Next]_vars

View == st

-----------------------------------------------------------------------------
(* Theorems of the model, checked in every reachable state (they make the oracle trustworthy). *)
RECURSIVE TreeOK(_)
TreeOK(t) == t.v \in Val /\ \A i \in 1..Len(t.k) : TreeOK(t.k[i])

TypeOK ==
  /\ \A s \in 1..NS : st[s].live \in BOOLEAN /\ (st[s].live => TreeOK(st[s].t)) /\ (~st[s].live => st[s] = Dead)
  /\ Total(st) <= MaxNodes

GeneratorSound == \A a \in OpsOf(st) : Pre(st, a)

Ident == [x \in Val |-> x]
Shift == [x \in Val |-> x + 7]

TreeLaws(t) ==
  LET ps == PathsOf(t)
      po == PreOrder(t)
  IN /\ Len(ps) = Size(t)
     /\ Len(po) = Size(t)
     /\ \A i \in 1..Len(ps) :
          LET p == ps[i] IN
          /\ HasPath(t, p)
          /\ IndexOfPath(t, p) = i - 1                         \* pre-order numbering and paths agree
          /\ po[i] = Sub(t, p).v
          /\ Put(t, p, Sub(t, p)) = t
          /\ p # <<>> => /\ \E j \in 1..(i - 1) : ps[j] = Front(p)  \* the parent precedes the child
                         /\ ChildPosition(p) \in 0..(Len(Sub(t, Front(p)).k) - 1)
                         /\ Sub(t, Front(p)).k[ChildPosition(p) + 1] = Sub(t, p)
          /\ Level(p) + Depth(Sub(t, p)) <= Depth(t)
          /\ Len(ToRoot(p)) = Level(p) + 1 /\ ToRoot(p)[1] = p /\ ToRoot(p)[Level(p) + 1] = <<>>
          /\ \A j \in 1..Level(p) : ToRoot(p)[j + 1] = Front(ToRoot(p)[j])
     /\ \E i \in 1..Len(ps) : Depth(t) = Level(ps[i]) + 1           \* depth = 1 + the deepest level
     /\ \A i \in 1..Len(ps) : \A j \in 1..Len(ps) : ps[i] = ps[j] => i = j
     /\ Map(t, Ident) = t
     /\ PreOrder(Map(t, Shift)) = [i \in 1..Len(po) |-> Shift[po[i]]]
     /\ PathsOf(Map(t, Shift)) = ps
     /\ Equal(t, t)

Laws ==
  /\ \A s \in LiveSlots(st) : TreeLaws(st[s].t)
  /\ \A s \in LiveSlots(st) : \A u \in LiveSlots(st) : Equal(st[s].t, st[u].t) <=> st[s].t = st[u].t

(* laws of the operations, for every operation enabled in the state *)
OpLaws ==
  \A a \in OpsOf(st) :
    LET e == Eff(st, a) IN
    /\ \A q \in e.free : Valid(e.f, q.s, q.p)
    /\ e.ret # NoRet => Valid(e.f, e.ret.s, e.ret.p)
    /\ a.op \in {"swap", "swap_free"} =>
         /\ Eff(e.f, a).f = st                                  \* swapping twice is the identity
         /\ Total(e.f) = Total(st)
         /\ At(e.f, a.as, a.ap) = At(st, a.bs, a.bp) /\ At(e.f, a.bs, a.bp) = At(st, a.as, a.ap)
    /\ a.op = "copy_assign" =>
         /\ Equal(At(e.f, a.as, a.ap), At(st, a.bs, a.bp))
         /\ ~Related(a) => At(e.f, a.bs, a.bp) = At(st, a.bs, a.bp)   \* the source is untouched
    /\ a.op \in {"copy_assign", "move_assign"} /\ BBelowA(a) =>
         /\ At(e.f, a.as, a.ap) = At(st, a.bs, a.bp)
         /\ Total(e.f) = Total(st) - Size(At(st, a.as, a.ap)) + Size(At(st, a.bs, a.bp))
    /\ a.op = "copy_ctor" => e.f[a.d].t = At(st, a.as, a.ap) /\ \A s \in 1..NS : s # a.d => e.f[s] = st[s]
    /\ a.op \in {"move_ctor", "push_back_tree", "push_front_tree", "insert_tree"} => Total(e.f) = Total(st) + 1
    /\ a.op \in {"push_back", "push_front"} => At(e.f, e.ret.s, e.ret.p) = Leaf(a.x)
    /\ a.op \in {"push_back_tree", "push_front_tree"} => At(e.f, e.ret.s, e.ret.p) = At(st, a.bs, a.bp)
    /\ a.op = "sort" =>
         LET K == At(e.f, a.as, a.ap).k IN
         IsSorted(K, a.x = 1) /\ SameBag(K, At(st, a.as, a.ap).k)
    /\ a.op = "release" /\ a.d # 0 => Total(e.f) = Total(st)
    /\ a.op \in {"eq", "ne"} => e.f = st

(* ---- the log context sub-model: only log_create / log_set on slot 1 (MC_TreeLog.cfg) ---- *)
LogNames == {1, 2}
LogLevels == {1, 6}
LogLocs == {<<>>} \cup {<<n>> : n \in LogNames} \cup {<<n, m>> : n \in LogNames, m \in LogNames}
LogOpsOf(f) ==
  IF ~f[1].live THEN {[BaseOp EXCEPT !.op = "log_ctor", !.d = 1, !.x = l] : l \in LogLevels}
  ELSE {[BaseOp EXCEPT !.op = "log_create", !.as = 1, !.ss = loc] : loc \in LogLocs \ {<<>>}}
       \cup {[BaseOp EXCEPT !.op = "log_set", !.as = 1, !.ss = loc, !.x = l] : loc \in LogLocs, l \in LogLevels}
LogInit == Init
LogNext == \E a \in LogOpsOf(st) : Step(a)

RECURSIVE LogWellFormed(_)
LogWellFormed(t) ==    \* sibling names are distinct and not empty
  /\ \A i \in 1..Len(t.k) : LogName(t.k[i].v) # 0 /\ \A j \in 1..Len(t.k) : i # j => LogName(t.k[i].v) # LogName(t.k[j].v)
  /\ \A i \in 1..Len(t.k) : LogWellFormed(t.k[i])
LogShape == st[1].live => LogName(st[1].t.v) = 0 /\ LogWellFormed(st[1].t)
LogOpLaws ==
  \A a \in LogOpsOf(st) :
    LET e == Eff(st, a)
        t0 == st[1].t
        t1 == e.f[1].t
        p == LogPath(t1, <<>>, a.ss)
    IN a.op # "log_ctor" =>
       /\ Pre(st, a)
       /\ p # <<-1>> /\ LogNamesOf(t1, p) = a.ss                     \* the location exists afterwards
       /\ \A q \in Range(PathsOf(t0)) : HasPath(t1, q) /\ LogName(Sub(t1, q).v) = LogName(Sub(t0, q).v)
       /\ a.op = "log_create" =>
            /\ e.ret = [s |-> 1, p |-> p]
            /\ \A q \in Range(PathsOf(t0)) : Sub(t1, q).v = Sub(t0, q).v   \* no level changes
            /\ \A q \in Range(PathsOf(t1)) :                                \* a new node has its parent's level
                 ~HasPath(t0, q) => LogLevel(Sub(t1, q).v) = LogLevel(Sub(t1, Front(q)).v)
            /\ Eff(e.f, a).f = e.f                                          \* creating again changes nothing
       /\ a.op = "log_set" =>
            \A q \in Range(PathsOf(t1)) :
              IF IsPrefix(p, q) THEN LogLevel(Sub(t1, q).v) = a.x             \* "every location below is also updated"
              ELSE IF HasPath(t0, q) THEN Sub(t1, q).v = Sub(t0, q).v          \* and nothing else;
              ELSE LogLevel(Sub(t1, q).v) = LogLevel(Sub(t1, Front(q)).v)       \* locations created on the way inherit

(* script emission: as a CONSTRAINT this prints the operation history of every generated
   transition (the constraint is evaluated on every successor state) *)
EmitScripts == PrintT("SCRIPT " \o ToJson(hist))
=============================================================================
