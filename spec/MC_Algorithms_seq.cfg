SPECIFICATION SpecSeq
CONSTANTS
  MaxLen = 5
  SetMax = 3
INVARIANT ReverseInvolution
INVARIANT ReverseAntiHom
INVARIANT RemoveLaws
INVARIANT UniqueLaws
INVARIANT FoldBreakPrefix
INVARIANT SearchLaws
INVARIANT BinarySearchLaws
INVARIANT MapLaws
INVARIANT SplitJoinInverse
INVARIANT AtOptionalLaws
INVARIANT ArrayLaws
INVARIANT ExtensionSeqLaws
INVARIANT IndexMapLaws
