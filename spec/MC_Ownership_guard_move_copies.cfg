SPECIFICATION Spec
CONSTANTS
  NO = 3
  NS = 2
  NW = 2
  NU = 2
  Bug = "move_copies"
VIEW View
INVARIANT CountAgrees
CHECK_DEADLOCK FALSE
