SPECIFICATION ISpec
CONSTANTS
  NS = 2
  Val = {0, 1}
  MaxNodes = 4
  SwapBug = FALSE
  CopyAssignBug = FALSE
  MoveAssignBug = FALSE
  InsertNoParentBug = FALSE
  CopyNoReparentBug = FALSE
  EraseKeepsBug = FALSE
  PushFrontRetBug = FALSE
  ReleaseNoClear = FALSE
  LogDupBug = FALSE
  LogSetShallowBug = FALSE
  LeakTempBug = TRUE
  MoveAssignInPlaceBug = FALSE
VIEW IView
INVARIANTS NoLeak
CHECK_DEADLOCK FALSE
