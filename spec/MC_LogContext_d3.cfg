SPECIFICATION Spec
CONSTANTS
  Names <- NamesAB
  MaxDepth = 3
  SetLevels = {1, 6}
  RootLevels = {3}
  Objs = {1}
  MaxSets = 3
  MaxOps = 20
  GenObservers = FALSE
  SetNodeOnlyBug = FALSE
  InheritRootBug = FALSE
VIEW View
INVARIANTS TypeOK PrefixClosed LatestPrefixWins GetLaw EnabledLaw LogLaw GeneratorSound TotalModelAgrees
CHECK_DEADLOCK FALSE
