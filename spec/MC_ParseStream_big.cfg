SPECIFICATION ASpec
CONSTANTS
  Sym = {97, 10, 32, 9}
  MaxLen = 5
  WithFailAt = FALSE
  MaxOps = 99
VIEW AView
INVARIANTS ATypeOK PosLaws ModelExplained SavedValid EqLaw
CHECK_DEADLOCK FALSE
