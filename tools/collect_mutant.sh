#!/bin/sh
# usage: tools/collect_mutant.sh <name> <property> "<what it needs to manifest>"
# copies /tmp/mut/<name>/out into /verif/seeded/<name>, writes meta.json, confirms it
# (tools/confirm_mutant.sh) and removes the scratch worktree.
n=$1; p=$2; needs=$3
d=/verif/seeded/$n
mkdir -p $d && cp /tmp/mut/$n/out/patch.diff /tmp/mut/$n/out/demo.cpp $d/ && cp /tmp/mut/$n/out/README.md $d/README.md 2>/dev/null
python3 - "$n" "$p" "$needs" <<'PY'
import json,sys
n,p,needs=sys.argv[1:4]
json.dump({"property":p,"origin":"independent sub-agent (property text + private worktree only)","needs":needs,
 "ran":"tools/confirm_mutant.sh %s (demo PASS without / FAIL with the change; existing 433 tests pass with the change); tools/run_seeded.py %s"%(n,n)},
 open('/verif/seeded/%s/meta.json'%n,'w'),indent=1)
PY
git -C /tmp/mutcheck checkout -q --detach $(git -C /repo rev-parse HEAD) 2>/dev/null
shift 3
/verif/tools/confirm_mutant.sh $n "$@"
git -C /repo worktree remove --force /tmp/mut/$n
