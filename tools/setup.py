#!/usr/bin/env python3
"""setup_cmd: nothing is downloaded or pre-built; every check rebuilds its harness from /repo.
Verifies that the tools the checks need are present and creates the scratch directory."""
import os
import shutil
import subprocess
import sys

V = os.path.dirname(os.path.dirname(os.path.abspath(__file__)))
os.makedirs(os.path.join(V, "build"), exist_ok=True)
os.makedirs(os.path.join(V, "evidence"), exist_ok=True)
ok = True
for t in ("java", "g++"):
    if shutil.which(t) is None:
        print("missing tool:", t)
        ok = False
for f in ("/opt/veriftools/tla/tla2tools.jar", "/opt/veriftools/tla/CommunityModules-deps.jar"):
    if not os.path.exists(f):
        print("missing:", f)
        ok = False
sys.exit(0 if ok else 1)
