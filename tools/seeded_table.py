#!/usr/bin/env python3
"""Prints the markdown table 'which checks catch which seeded changes' from seeded/*/meta.json and
seeded/RESULTS.json (written by tools/run_seeded.py)."""
import json, os
V = os.path.dirname(os.path.dirname(os.path.abspath(__file__)))
res = json.load(open(os.path.join(V, "seeded", "RESULTS.json")))
print("| id | property | origin | what it needs to manifest | caught by (first signatures) |")
print("|----|----------|--------|---------------------------|------------------------------|")
for mid in sorted(os.listdir(os.path.join(V, "seeded"))):
    d = os.path.join(V, "seeded", mid)
    if not os.path.isdir(d):
        continue
    m = json.load(open(os.path.join(d, "meta.json")))
    r = res.get(mid, {})
    caught = []
    for k, v in sorted(r.items()):
        if isinstance(v, dict) and "caught" in v:
            caught.append("%s %s: %s" % (k.split(":")[0], "CAUGHT" if v["caught"] else "missed", "; ".join("`%s`" % s for s in v["signatures"][:2])))
    origin = "independent agent" if m.get("origin", "").startswith("independent") else "own (planned)"
    print("| %s | %s | %s | %s | %s |" % (mid, m["property"], origin, m["needs"].replace("|", "\\|")[:230], "<br>".join(caught) or "not run"))
