#!/usr/bin/env python3
"""Entry point: tools/check.py <ID> [--tier quick|thorough] [--replay FILE]

Loads checks/<id>.py and calls run(ctx) (or replay(ctx, payload)).  Exit 0 / 1 (VIOLATION) /
2 (infrastructure failure, never a VIOLATION line)."""
import argparse
import importlib.util
import json
import os
import sys
import traceback

sys.path.insert(0, os.path.dirname(os.path.abspath(__file__)))
import vlib  # noqa: E402


def main():
    ap = argparse.ArgumentParser()
    ap.add_argument("pid")
    ap.add_argument("--tier", default=os.environ.get("VERIF_TIER", "quick"), choices=["quick", "thorough"])
    ap.add_argument("--replay")
    a = ap.parse_args()
    pid = a.pid.upper()
    seed = int(os.environ.get("VERIF_SEED", "1") or "1")
    path = os.path.join(vlib.VERIF, "checks", pid.lower() + ".py")
    if not os.path.exists(path):
        print("no check for", pid, file=sys.stderr)
        return 2
    spec = importlib.util.spec_from_file_location("check_" + pid.lower(), path)
    mod = importlib.util.module_from_spec(spec)
    spec.loader.exec_module(mod)
    ctx = vlib.Ctx(pid, a.tier, seed, level=getattr(mod, "LEVEL", "model_checking"))
    try:
        if a.replay:
            payload = json.load(open(a.replay))
            ctx.is_replay = True
            mod.replay(ctx, payload)
        else:
            mod.run(ctx)
        return ctx.finish()
    except vlib.Infra as e:
        print("INFRASTRUCTURE FAILURE (no verdict) in %s: %s" % (pid, e), file=sys.stderr)
        return 2
    except Exception:
        traceback.print_exc()
        print("INFRASTRUCTURE FAILURE (no verdict) in %s" % pid, file=sys.stderr)
        return 2


if __name__ == "__main__":
    sys.exit(main())
