#!/usr/bin/env python3
"""Runs the registered checks against the seeded changes kept under /verif/seeded/<id>/.

For each seeded change: a scratch worktree of /repo HEAD is created under /tmp, patch.diff is
applied there, the property's check is run with VERIF_REPO pointing at it (so /repo itself is never
touched and other runs are not disturbed), and the outcome (exit code, VIOLATION signatures) is
compared with the expectation (exit 1).  Scratch worktrees and build output are removed afterwards.

  tools/run_seeded.py [--tier quick] [id ...]        # default: all ids
Writes seeded/RESULTS.json (which checks catch which changes)."""
import argparse
import json
import os
import re
import shutil
import subprocess
import sys
import time

V = os.path.dirname(os.path.dirname(os.path.abspath(__file__)))


def sh(cmd, **kw):
    return subprocess.run(cmd, stdout=subprocess.PIPE, stderr=subprocess.STDOUT, text=True, **kw)


def main():
    ap = argparse.ArgumentParser()
    ap.add_argument("--tier", default="quick")
    ap.add_argument("--keep", action="store_true")
    ap.add_argument("ids", nargs="*")
    a = ap.parse_args()
    sd = os.path.join(V, "seeded")
    ids = a.ids or sorted(d for d in os.listdir(sd) if os.path.isdir(os.path.join(sd, d)))
    resf = os.path.join(sd, "RESULTS.json")
    results = json.load(open(resf)) if os.path.exists(resf) else {}
    for mid in ids:
        d = os.path.join(sd, mid)
        meta = json.load(open(os.path.join(d, "meta.json")))
        props = meta["checks"] if "checks" in meta else [meta["property"]]
        wt = "/tmp/seeded_wt_%s" % mid
        vb = "/tmp/seeded_vb_%s" % mid
        ev = "/tmp/seeded_ev_%s" % mid
        sh(["git", "-C", "/repo", "worktree", "remove", "--force", wt])
        shutil.rmtree(wt, ignore_errors=True)
        r = sh(["git", "-C", "/repo", "worktree", "add", "--detach", wt, "HEAD"])
        if r.returncode != 0:
            print(mid, "cannot create worktree", r.stdout)
            continue
        r = sh(["git", "-C", wt, "apply", os.path.join(d, "patch.diff")])
        if r.returncode != 0:
            print(mid, "patch does not apply:", r.stdout)
            results[mid] = {"error": "patch does not apply"}
            sh(["git", "-C", "/repo", "worktree", "remove", "--force", wt])
            continue
        for pid in props:
            env = dict(os.environ, VERIF_REPO=wt, VERIF_BUILD=vb, VERIF_EVIDENCE_DIR=ev, VERIF_TIER=a.tier)
            t0 = time.time()
            r = sh([os.path.join(V, "check"), pid, "--tier", a.tier], env=env, cwd=V)
            sigs = re.findall(r"signature: (.*)", r.stdout)
            known = re.findall(r"KNOWN-FINDING.*", r.stdout)
            caught = r.returncode == 1 and "VIOLATION property=%s" % pid in r.stdout
            results.setdefault(mid, {})[pid + ":" + a.tier] = {
                "exit": r.returncode, "caught": caught, "signatures": sigs[:8], "wall_s": round(time.time() - t0, 1)}
            print("%-12s %s %-8s exit=%d %s %s" % (mid, pid, a.tier, r.returncode, "CAUGHT" if caught else "MISSED", sigs[:3]))
            if r.returncode not in (0, 1):
                print(r.stdout[-1500:])
        if not a.keep:
            sh(["git", "-C", "/repo", "worktree", "remove", "--force", wt])
            shutil.rmtree(vb, ignore_errors=True)
            shutil.rmtree(ev, ignore_errors=True)
    with open(resf, "w") as f:
        json.dump(results, f, indent=1, sort_keys=True)
        f.write("\n")


if __name__ == "__main__":
    main()
