#!/bin/sh
# usage: tools/confirm_mutant.sh <id> [extra g++ args for the demo]
# Confirms a seeded change kept in /verif/seeded/<id>: (1) the existing suite still passes with it
# (incremental build of the scratch full build /tmp/mutcheck), (2) demo passes without / fails with.
id=$1; shift
d=/verif/seeded/$id
W=/tmp/mutcheck
git -C $W checkout -q -- . || exit 9
INC="-I$W/libs/core/include -I$W/libs/options/include -I$W/libs/parse/include -I$W/libs/log/include -I$W/libs/filesystem/include -I$W/libs/core/impl/include -I/repo/_build/include -I/repo/_build/impl/include"
echo "== demo on unchanged tree"
g++ -std=c++20 -O1 -g $INC "$@" $d/demo.cpp -o /tmp/demo_$id.bin 2>&1 | tail -5
/tmp/demo_$id.bin > /tmp/demo_$id.out 2>&1; echo "exit=$? $(tail -1 /tmp/demo_$id.out)"
git -C $W apply $d/patch.diff || exit 9
echo "== demo with change"
g++ -std=c++20 -O1 -g $INC "$@" $d/demo.cpp -o /tmp/demo_$id.bin 2>&1 | tail -5
/tmp/demo_$id.bin > /tmp/demo_$id.out 2>&1; echo "exit=$? $(tail -1 /tmp/demo_$id.out)"
echo "== existing suite with change"
cmake --build $W/_build -j6 2>&1 | tail -1
ctest --test-dir $W/_build -j6 --timeout 900 2>&1 | tail -3
git -C $W checkout -q -- .
rm -f /tmp/demo_$id.bin /tmp/demo_$id.out
