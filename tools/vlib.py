#!/usr/bin/env python3
"""Shared machinery of the fcppt model-based checks.

Roles (DESIGN.md section 2): the C++ harnesses only *drive and record* the real
code (ndjson), TLC *judges* every record/trace against a TLA+ specification and
model-checks the specification itself.  This module runs TLC, builds harnesses
from the current /repo tree, classifies rejections against known_findings.json,
and writes evidence.

Exit codes of a check: 0 = property held on everything explored, 1 = VIOLATION
(real code inexplicable by the spec), 2 = infrastructure failure (never a
VIOLATION line).
"""
import concurrent.futures
import glob
import hashlib
import json
import os
import re
import shutil
import subprocess
import sys
import threading
import time
import uuid

VERIF = os.path.dirname(os.path.dirname(os.path.abspath(__file__)))
REPO = os.environ.get("VERIF_REPO", "/repo")
BUILD = os.environ.get("VERIF_BUILD", os.path.join(VERIF, "build"))
SPEC = os.path.join(VERIF, "spec")
HARNESS = os.path.join(VERIF, "harness")
TLA_CP = "/opt/veriftools/tla/tla2tools.jar:/opt/veriftools/tla/CommunityModules-deps.jar"
NCPU = int(os.environ.get("VERIF_NCPU") or os.cpu_count() or 4)   # VERIF_NCPU: development aid on a shared machine


class Infra(Exception):
    """Infrastructure failure: spec does not parse, harness does not build, TLC crashed."""


def log(*a):
    print("[verif]", *a, file=sys.stderr, flush=True)


def sha(b):
    return hashlib.sha256(b).hexdigest()


def mkdir(p):
    os.makedirs(p, exist_ok=True)
    return p


# --------------------------------------------------------------------------- TLC


class TlcResult:
    def __init__(self, rc, out, wall):
        self.rc = rc
        self.out = out
        self.wall = wall
        m = re.findall(r"(\d+) states generated, (\d+) distinct states found, (\d+) states? left on queue", out)
        self.generated = int(m[-1][0]) if m else 0
        self.distinct = int(m[-1][1]) if m else 0
        m = re.search(r"The depth of the complete state graph search is (\d+)", out)
        self.depth = int(m.group(1)) if m else 0
        self.completed = "Model checking completed. No error has been found." in out
        self.sim_traces = 0
        m = re.findall(r"Progress: (\d+) states checked, (\d+) traces generated", out)
        if m:
            self.generated = max(self.generated, int(m[-1][0]))
            self.sim_traces = int(m[-1][1])
        self.invariant_violated = re.findall(r"Error: Invariant (\S+) is violated", out)
        self.property_violated = "Temporal properties were violated" in out or re.findall(
            r"Error: Action property (\S+)", out)
        self.prints = _parse_prints(out)

    def coverage(self):
        """action name -> (taken, generated) from a -coverage run"""
        cov = {}
        for m in re.finditer(r"<(\w+) line \d+, col \d+ to line \d+, col \d+ of module (\w+)>: (\d+):(\d+)", self.out):
            n = m.group(1)
            t, g = int(m.group(3)), int(m.group(4))
            if n in cov:
                cov[n] = (cov[n][0] + t, cov[n][1] + g)
            else:
                cov[n] = (t, g)
        return cov


def _parse_prints(out):
    """Lines printed by PrintT(<<"TAG", ...>>) -> list of raw strings starting with <<"""
    res = []
    buf = None
    for line in out.splitlines():
        if buf is not None:
            buf += " " + line.strip()
            if buf.count("<<") <= buf.count(">>"):
                res.append(buf)
                buf = None
            continue
        if line.startswith('<<"'):
            if line.count("<<") <= line.count(">>"):
                res.append(line)
            else:
                buf = line
    return res


def tla_value(s):
    """Parse a printed TLA+ value (tuples, sets, records, strings, ints, booleans, functions
    printed as (a :> b @@ ...)) into python (tuples->list, sets->list, records->dict)."""
    pos = 0
    n = len(s)

    def ws():
        nonlocal pos
        while pos < n and s[pos] in " \n\t\r":
            pos += 1

    def val():
        nonlocal pos
        ws()
        if s.startswith("<<", pos):
            pos += 2
            items = seq(">>")
            return items
        if s[pos] == "{":
            pos += 1
            return seq("}")
        if s[pos] == "[":
            pos += 1
            d = {}
            ws()
            if s[pos] == "]":
                pos += 1
                return d
            while True:
                ws()
                m = re.match(r"\w+", s[pos:])
                k = m.group(0)
                pos += len(k)
                ws()
                assert s.startswith("|->", pos), s[pos:pos + 20]
                pos += 3
                d[k] = val()
                ws()
                if s[pos] == ",":
                    pos += 1
                    continue
                assert s[pos] == "]"
                pos += 1
                return d
        if s[pos] == "(":
            pos += 1
            d = {}
            while True:
                k = val()
                ws()
                assert s.startswith(":>", pos)
                pos += 2
                v = val()
                d[json.dumps(k) if not isinstance(k, (str, int)) else k] = v
                ws()
                if s.startswith("@@", pos):
                    pos += 2
                    continue
                assert s[pos] == ")"
                pos += 1
                return d
        if s[pos] == '"':
            j = pos + 1
            out = []
            while s[j] != '"':
                if s[j] == "\\":
                    j += 1
                out.append(s[j])
                j += 1
            pos = j + 1
            return "".join(out)
        m = re.match(r"-?\d+", s[pos:])
        if m:
            pos += len(m.group(0))
            return int(m.group(0))
        m = re.match(r"\w+", s[pos:])
        if m:
            pos += len(m.group(0))
            w = m.group(0)
            return {"TRUE": True, "FALSE": False}.get(w, w)
        raise ValueError("cannot parse TLA value at: " + s[pos:pos + 40])

    def seq(close):
        nonlocal pos
        items = []
        ws()
        if s.startswith(close, pos):
            pos += len(close)
            return items
        while True:
            items.append(val())
            ws()
            if s[pos] == ",":
                pos += 1
                continue
            assert s.startswith(close, pos), s[pos:pos + 30]
            pos += len(close)
            return items

    return val()


_tlc_counter = [0]
_tlc_lock = threading.Lock()


def _only_invariant(cfg, inv, cwd):
    """A copy of cfg that checks only invariant `inv` (if cfg lists it among several): a vacuity guard
    expecting one particular invariant must not depend on which of several violated invariants a
    multi-worker BFS happens to report first."""
    path = cfg if os.path.isabs(cfg) else os.path.join(cwd, cfg)
    lines = open(path).read().splitlines()
    out = []
    listed = []
    skipping = False
    kw = re.compile(r"^\s*(CONSTANTS?|SPECIFICATION|VIEW|CHECK_DEADLOCK|CONSTRAINTS?|ACTION_CONSTRAINTS?|PROPERT(Y|IES)|INIT|NEXT|SYMMETRY|POSTCONDITION|ALIAS|INVARIANTS?)\b")
    for l in lines:
        if re.match(r"^\s*INVARIANTS?\b", l):
            listed += l.split()[1:]
            skipping = True
            continue
        if skipping and not kw.match(l) and l.strip() and not l.strip().startswith("\\*"):
            listed += l.split()
            continue
        skipping = False
        out.append(l)
    if inv not in listed or len(listed) <= 1:
        return cfg
    out.append("INVARIANTS " + inv)
    d = mkdir(os.path.join(BUILD, "cfg"))
    np = os.path.join(d, "%s_only_%s_%d_%s.cfg" % (os.path.basename(cfg)[:-4], inv, os.getpid(), uuid.uuid4().hex[:8]))
    with open(np, "w") as f:
        f.write("\n".join(out) + "\n")
    return np


def _mc_cache_key(cmd, meta, cfg, cwd, env):
    """Development aid, OFF unless VERIF_MC_CACHE names a directory (never set by the registered commands):
    model checks of the specification do not depend on the tree under test, so repeated trials of mutants may
    reuse their output.  Runs that read a file named in their environment (judges: TRACE=...) are never cached.
    The key covers every file in the spec directory, the cfg and the command line."""
    d = os.environ.get("VERIF_MC_CACHE")
    if not d or env:
        return None
    h = hashlib.sha256()
    for c in cmd:
        if c == meta:
            c = "<meta>"
        elif cfg and c == cfg and os.path.isabs(cfg):
            c = "<generated cfg>"
        h.update(c.encode() + b"\0")
    for fn in sorted(os.listdir(cwd)):
        if fn.endswith((".tla", ".cfg")):
            with open(os.path.join(cwd, fn), "rb") as f:
                h.update(fn.encode() + b"\0" + f.read() + b"\0")
    if cfg and os.path.isabs(cfg) and os.path.exists(cfg):
        with open(cfg, "rb") as f:
            h.update(f.read())
        # generated single-invariant cfgs have unique names: key by content instead
        h.update(b"abs-cfg")
    return os.path.join(mkdir(d), h.hexdigest() + ".json")


def _mc_cache_get(key):
    if key and os.path.exists(key):
        try:
            with open(key) as f:
                return json.load(f)
        except ValueError:
            return None
    return None


def _mc_cache_put(key, val):
    if key:
        tmp = key + ".%d.tmp" % os.getpid()
        with open(tmp, "w") as f:
            json.dump(val, f)
        os.replace(tmp, key)


def tlc(module, cfg=None, workers=1, env=None, timeout=900, simulate=None, depth=None,
        dfs=False, coverage=False, xmx="6g", extra=(), deadlock=True, cwd=SPEC, tag=None, seed=None, expect=None):
    """Run TLC on spec/<module>.tla with spec/<cfg>.  Returns TlcResult.  Raises Infra on
    parse errors, TLC crashes and timeouts (a model that does not finish is an infrastructure
    problem, never a verdict)."""
    with _tlc_lock:
        _tlc_counter[0] += 1
        my_id = _tlc_counter[0]
    if expect and cfg:
        cfg = _only_invariant(cfg, expect, cwd)
    meta = os.path.join(BUILD, "tlc", "%s_%d_%d_%s" % (tag or module, os.getpid(), my_id, uuid.uuid4().hex[:8]))
    shutil.rmtree(meta, ignore_errors=True)
    mkdir(meta)
    cmd = ["java", "-XX:+UseParallelGC", "-Xmx" + xmx, "-Xss16m"]
    if dfs:
        cmd.append("-Dtlc2.tool.queue.IStateQueue=StateDeque")
    cmd += ["-cp", TLA_CP, "tlc2.TLC", "-workers", str(workers), "-metadir", meta, "-noGenerateSpecTE"]
    if not deadlock:
        cmd.append("-deadlock")
    if coverage:
        cmd += ["-coverage", "1"]
    if simulate is not None:
        cmd += ["-simulate", "num=%d" % simulate]
        if depth:
            cmd += ["-depth", str(depth)]
        if seed is not None:
            cmd += ["-seed", str(seed)]
    cmd += list(extra)
    if cfg:
        cmd += ["-config", cfg]
    cmd.append(module)
    e = dict(os.environ)
    e.pop("JAVA_TOOL_OPTIONS", None)
    if env:
        e.update(env)
    ckey = _mc_cache_key(cmd, meta, cfg, cwd, env)
    cached = _mc_cache_get(ckey)
    if cached is not None:
        shutil.rmtree(meta, ignore_errors=True)
        r = TlcResult(cached["rc"], cached["out"], cached["wall"])
        r.cmd = " ".join(cmd)
        return r
    t0 = time.time()
    try:
        p = subprocess.run(cmd, cwd=cwd, env=e, stdout=subprocess.PIPE, stderr=subprocess.STDOUT,
                           timeout=timeout, text=True, errors="replace")
    except subprocess.TimeoutExpired as ex:
        shutil.rmtree(meta, ignore_errors=True)
        raise Infra("TLC timeout after %ss: %s" % (timeout, " ".join(cmd)))
    wall = time.time() - t0
    shutil.rmtree(meta, ignore_errors=True)
    r = TlcResult(p.returncode, p.stdout, wall)
    r.cmd = " ".join(cmd)
    if p.returncode in (0, 10, 11, 12, 13, 14):
        _mc_cache_put(ckey, {"rc": p.returncode, "out": p.stdout, "wall": wall})
    if p.returncode >= 150 or "Parsing or semantic analysis failed" in p.stdout or \
            re.search(r"Error: TLC (threw|encountered) an unexpected exception", p.stdout) or \
            (p.returncode not in (0, 10, 11, 12, 13, 14)):
        tail = "\n".join(p.stdout.splitlines()[-60:])
        raise Infra("TLC failed (rc=%d) on %s/%s:\n%s" % (p.returncode, module, cfg, tail))
    return r


def tlc_mc(ctx, module, cfg, workers=NCPU, expect_ok=True, **kw):
    """Model-check the specification itself.  A failure here is a *spec* problem (exit 2),
    never a VIOLATION of the real code."""
    r = tlc(module, cfg, workers=workers, **kw)
    ok = r.rc == 0 and (r.completed or kw.get("simulate") is not None)
    ctx.mc_runs.append({"module": module, "cfg": cfg, "generated": r.generated, "distinct": r.distinct,
                        "depth": r.depth, "wall_s": round(r.wall, 2), "ok": ok, "cmd": r.cmd,
                        "simulate": kw.get("simulate")})
    if expect_ok and not ok:
        tail = "\n".join(r.out.splitlines()[-80:])
        raise Infra("model check of %s/%s failed (spec-level, not a code verdict):\n%s" % (module, cfg, tail))
    log("MC %s/%s: %d generated, %d distinct, depth %d, %.1fs" % (module, cfg, r.generated, r.distinct, r.depth, r.wall))
    return r


# --------------------------------------------------------------------------- harness build

GEN_INC = [os.path.join(HARNESS, "gen_include", "pub"), os.path.join(HARNESS, "gen_include", "impl")]
LIBS = ["core", "filesystem", "log", "options", "parse", "boost", "catch"]

SAN_FLAGS = {
    "asan": ["-fsanitize=address,undefined", "-fno-sanitize-recover=all", "-fno-omit-frame-pointer"],
    "tsan": ["-fsanitize=thread", "-fno-omit-frame-pointer"],
    "none": [],
}


def include_flags():
    f = []
    for l in LIBS:
        for sub in ("include", "impl/include"):
            d = os.path.join(REPO, "libs", l, sub)
            if os.path.isdir(d):
                f += ["-I", d]
    for d in GEN_INC:
        f += ["-I", d]
    f += ["-I", HARNESS]
    return f


def base_flags(san="asan", opt="-O1", defs=()):
    return (["g++", "-std=c++20", opt, "-g1", "-pthread", "-DFCPPT_STATIC_LINK", "-D_GLIBCXX_ASSERTIONS"]
            + ["-D" + d for d in defs] + SAN_FLAGS[san] + include_flags())


def _dep_key(cmd, depfile):
    h = hashlib.sha256()
    h.update(("\0".join(cmd)).encode())
    try:
        txt = open(depfile).read()
    except OSError:
        return None
    txt = txt.replace("\\\n", " ")
    deps = []
    for line in txt.splitlines():
        if ":" in line:
            deps += line.split(":", 1)[1].split()
    for d in sorted(set(deps)):
        try:
            with open(d, "rb") as f:
                h.update(d.encode())
                h.update(hashlib.sha256(f.read()).digest())
        except OSError:
            return None
    return h.hexdigest()


def _deps_newer_than(depfile, t):
    try:
        txt = open(depfile).read().replace("\\\n", " ")
    except OSError:
        return True
    for line in txt.splitlines():
        if ":" in line:
            for d in line.split(":", 1)[1].split():
                try:
                    if os.path.getmtime(d) >= t:
                        return True
                except OSError:
                    return True
    return False


def compile_obj(src, obj, flags):
    """Compile src -> obj unless an identical compilation (same command, same content of every
    dependency, by hash) produced the existing obj.  Returns (obj, rebuilt).  Outputs are written
    to temporary names and renamed, so that concurrent checks sharing the cache never see a
    half-written object."""
    mkdir(os.path.dirname(obj))
    dep = obj + ".d"
    keyf = obj + ".key"
    ident = flags + ["-c", src]
    if os.path.exists(obj) and os.path.exists(keyf) and os.path.exists(dep):
        try:
            k = _dep_key(ident, dep)
            if k is not None and k == open(keyf).read().strip():
                return obj, False
        except OSError:
            pass
    suffix = ".tmp%d_%s" % (os.getpid(), uuid.uuid4().hex[:8])
    tobj, tdep = obj + suffix + ".o", dep + suffix
    cmd = flags + ["-MMD", "-MF", tdep, "-MT", obj, "-c", src, "-o", tobj]
    t_start = time.time()
    p = subprocess.run(cmd, stdout=subprocess.PIPE, stderr=subprocess.STDOUT, text=True, errors="replace")
    if p.returncode != 0:
        for t in (tobj, tdep):
            try:
                os.unlink(t)
            except OSError:
                pass
        raise Infra("compile failed: %s\n%s" % (src, p.stdout[-6000:]))
    k = _dep_key(ident, tdep)
    # a dependency edited while the compiler ran: the object may be older than the key says
    if k and _deps_newer_than(tdep, t_start - 2.0):
        k = None
        try:
            os.unlink(keyf)
        except OSError:
            pass
    os.replace(tobj, obj)
    os.replace(tdep, dep)
    if k:
        with open(keyf + suffix, "w") as f:
            f.write(k)
        os.replace(keyf + suffix, keyf)
    return obj, True


def lib_sources(lib):
    s = []
    for sub in ("src", "impl/src"):
        s += glob.glob(os.path.join(REPO, "libs", lib, sub, "**", "*.cpp"), recursive=True)
    return sorted(s)


def build_harness(name, sources, libs=("core",), san="asan", opt="-O1", defs=(), link=(), jobs=NCPU):
    """Build build/bin/<name> from harness sources (relative to /verif/harness, or absolute) plus the
    .cpp files of the named fcppt libraries, all compiled from REPO's *current working tree*."""
    t0 = time.time()
    flags = base_flags(san, opt, defs)
    tag = sha((REPO + san + opt + " ".join(defs)).encode())[:10]
    objdir = mkdir(os.path.join(BUILD, "obj", tag))
    jobs_l = []
    for s in sources:
        p = s if os.path.isabs(s) else os.path.join(HARNESS, s)
        jobs_l.append((p, os.path.join(objdir, "h_" + name + "_" + os.path.basename(p) + ".o")))
    for l in libs:
        for p in lib_sources(l):
            rel = os.path.relpath(p, os.path.join(REPO, "libs")).replace("/", "_")
            jobs_l.append((p, os.path.join(objdir, "lib_" + rel + ".o")))
    objs = []
    rebuilt = 0
    with concurrent.futures.ThreadPoolExecutor(max_workers=jobs) as ex:
        futs = [ex.submit(compile_obj, s, o, flags) for s, o in jobs_l]
        for f in futs:
            o, r = f.result()
            objs.append(o)
            rebuilt += r
    out = os.path.join(mkdir(os.path.join(BUILD, "bin", tag)), name)
    tout = out + ".tmp%d" % os.getpid()
    cmd = ["g++", "-pthread"] + SAN_FLAGS[san] + objs + list(link) + ["-o", tout]
    if rebuilt or not os.path.exists(out):
        p = subprocess.run(cmd, stdout=subprocess.PIPE, stderr=subprocess.STDOUT, text=True, errors="replace")
        if p.returncode != 0:
            raise Infra("link failed: %s\n%s" % (name, p.stdout[-4000:]))
        os.replace(tout, out)
    log("build %s: %d objects (%d rebuilt) in %.1fs" % (name, len(objs), rebuilt, time.time() - t0))
    return out


SAN_ENV = {
    "ASAN_OPTIONS": "abort_on_error=0:exitcode=66:detect_leaks=1:allocator_may_return_null=1:detect_stack_use_after_return=0",
    "UBSAN_OPTIONS": "print_stacktrace=1:halt_on_error=1:exitcode=66",
    "TSAN_OPTIONS": "exitcode=66:halt_on_error=1:second_deadlock_stack=1",
    "LSAN_OPTIONS": "exitcode=66",
}


def run_harness(binary, args, timeout=600, env=None, stdin=None):
    """Run a harness.  Returns (rc, stdout+stderr tail).  rc 66 = sanitizer report, -N = signal,
    124 = timeout."""
    e = dict(os.environ)
    e.update(SAN_ENV)
    if env:
        e.update(env)
    try:
        p = subprocess.run([binary] + [str(a) for a in args], stdout=subprocess.PIPE, stderr=subprocess.STDOUT,
                           timeout=timeout, text=True, errors="replace", env=e, input=stdin)
        return p.returncode, p.stdout
    except subprocess.TimeoutExpired as ex:
        o = ex.stdout or ""
        if isinstance(o, bytes):
            o = o.decode(errors="replace")
        return 124, o


# --------------------------------------------------------------------------- findings / verdicts


def load_findings():
    p = os.path.join(VERIF, "known_findings.json")
    if not os.path.exists(p):
        return []
    return json.load(open(p)).get("findings", [])


class Ctx:
    def __init__(self, pid, tier, seed, level="model_checking"):
        self.pid = pid
        self.tier = tier
        self.seed = seed
        self.level = level
        self.t0 = time.time()
        self.mc_runs = []
        self.traces_validated = 0
        self.evaluations = 0
        self.distinct = set()
        self.samples = []
        self.rule = ""
        self.exhaustive = False
        self.assumptions = []
        self.violations = []   # (signature, what, replay path)
        self.known_hits = {}   # signature -> count
        self.extra = {}
        self.workdir = mkdir(os.path.join(BUILD, "work", pid))
        self.replay_dir = mkdir(os.path.join(BUILD, "replay", pid))
        self.findings = [f for f in load_findings() if f["property"] == pid]
        self.is_replay = False

    # -- bookkeeping -------------------------------------------------------
    def sample(self, x, cap=6):
        if len(self.samples) < cap:
            self.samples.append(x)

    def count_class(self, key):
        self.distinct.add(key)

    def reject(self, signature, what, replay_payload):
        """A real-code event the abstract spec cannot explain.  Classified against the open
        entries of known_findings.json by *signature* (exact match or regex 'signature_re')."""
        for f in self.findings:
            if f.get("status") != "open":
                continue
            if f.get("signature") == signature or (f.get("signature_re") and re.fullmatch(f["signature_re"], signature)):
                self.known_hits.setdefault(f["signature"] if "signature" in f else f["signature_re"], [0, f])[0] += 1
                return False
        prev = [v for v in self.violations if v[0] == signature]
        if prev:
            self.violations.append((signature, what, prev[0][2]))
        else:
            nsig = len(set(v[0] for v in self.violations))
            path = os.path.join(self.replay_dir, "%sviol_%d_%s.json" % ("re" if self.is_replay else "", nsig, self.tier))
            with open(path, "w") as fh:
                json.dump({"property": self.pid, "signature": signature, "what": what, "seed": self.seed,
                           "tier": self.tier, "payload": replay_payload}, fh, indent=1)
            self.violations.append((signature, what, path))
        return True

    # -- output ------------------------------------------------------------
    def finish(self):
        wall = time.time() - self.t0
        states = sum(r["distinct"] for r in self.mc_runs)
        trans = sum(r["generated"] for r in self.mc_runs)
        cov = {
            "evaluations": int(self.evaluations),
            "distinct_nontrivial": len(self.distinct),
            "rule": self.rule,
            "samples": self.samples or ["(no sample recorded)"],
            "states": int(states),
            "transitions": int(trans),
            "traces_validated_against_impl": int(self.traces_validated),
            "exhaustive": bool(self.exhaustive),
            "model_runs": self.mc_runs,
            "known_findings_hit": {k: v[0] for k, v in self.known_hits.items()},
            "repo": REPO,
        }
        cov.update(self.extra)
        ev = {
            "property_id": self.pid,
            "tier": self.tier,
            "seed": int(self.seed),
            "level": self.level,
            "coverage": cov,
            "assumptions": self.assumptions,
            "wall_s": round(wall, 2),
            "violations": len(self.violations),
        }
        evp = os.environ.get("VERIF_EVIDENCE_DIR", os.path.join(VERIF, "evidence"))
        if not self.is_replay:
            mkdir(evp)
            with open(os.path.join(evp, self.pid + ".json"), "w") as f:
                json.dump(ev, f, indent=1, sort_keys=True)
                f.write("\n")
        for k, (n, f) in self.known_hits.items():
            print("KNOWN-FINDING: property=%s %s [signature %s, %d occurrence(s)]" % (self.pid, f["what"], k, n))
        if self.violations:
            seen = set()
            for sig, what, path in self.violations:
                if sig in seen:
                    continue
                seen.add(sig)
                print("VIOLATION property=%s replay=%s" % (self.pid, path))
                print("  signature: %s" % sig)
                print("  what: %s" % what)
            sys.stdout.flush()
            return 1
        print("OK property=%s tier=%s states=%d traces=%d evaluations=%d wall=%.1fs" % (
            self.pid, self.tier, states, self.traces_validated, self.evaluations, wall))
        return 0


# --------------------------------------------------------------------------- ndjson helpers


def read_ndjson(path):
    with open(path) as f:
        for line in f:
            line = line.strip()
            if line:
                yield json.loads(line)


def write_ndjson(path, recs):
    with open(path, "w") as f:
        for r in recs:
            f.write(json.dumps(r, separators=(",", ":")))
            f.write("\n")


def split_file(path, nchunks, boundary=None):
    """Split an ndjson file into <= nchunks files on line boundaries (optionally only before lines
    for which boundary(line) is true, e.g. reset events).  Returns list of (path, first_line_no)."""
    lines = open(path).read().splitlines()
    if not lines:
        return []
    per = max(1, (len(lines) + nchunks - 1) // nchunks)
    chunks = []
    cur = []
    start = 0
    for i, l in enumerate(lines):
        if len(cur) >= per and (boundary is None or boundary(l)):
            chunks.append((start, cur))
            cur = []
            start = i
        cur.append(l)
    if cur:
        chunks.append((start, cur))
    out = []
    for k, (st, c) in enumerate(chunks):
        p = "%s.part%d" % (path, k)
        with open(p, "w") as f:
            f.write("\n".join(c) + "\n")
        out.append((p, st))
    return out


def parallel(fn, items, workers=NCPU):
    with concurrent.futures.ThreadPoolExecutor(max_workers=workers) as ex:
        return list(ex.map(fn, items))


# --------------------------------------------------------------------------- trace judging


def _verdict_lines(out):
    """PrintT("VERDICT " \\o ToJson(..)) prints a quoted, escaped TLA+ string on one line."""
    res = {}
    for line in out.splitlines():
        line = line.strip()
        if line.startswith('"') and line.endswith('"'):
            try:
                s = json.loads(line)
            except ValueError:
                continue
            for tag in ("VERDICT", "STUCK", "SCRIPT", "INFO"):
                if s.startswith(tag + " "):
                    body = s[len(tag) + 1:]
                    try:
                        body = json.loads(body)
                    except ValueError:
                        pass
                    res.setdefault(tag, []).append(body)
    return res


def check_trace_file(path):
    """Returns (complete_lines, truncated_tail_or_None).  A harness killed inside a driven call
    leaves an unterminated JSON line naming the operation."""
    data = open(path, "rb").read().decode(errors="replace")
    lines = data.split("\n")
    tail = None
    if lines and lines[-1] != "":
        tail = lines[-1]
    lines = [x for x in lines[:-1] if x.strip()]
    good = []
    for i, x in enumerate(lines):
        try:
            json.loads(x)
            good.append(x)
        except ValueError:
            # a truncated call line followed by a crash record
            tail = x if tail is None else tail
    return good, tail


def judge_trace(ctx, module, cfg, trace_path, nchunks=NCPU, boundary_key='"e":"reset"', timeout=900, dfs=False):
    """Validate an ndjson trace with spec/<module>.tla.  The file is split at history boundaries
    and the chunks are judged by parallel TLC processes (one worker each).  Returns the list of
    rejected events: dicts {l (global 1-based line), op, why[...]}.  Raises Infra if TLC does not
    deliver a verdict for a chunk."""
    chunks = split_file(trace_path, nchunks, boundary=(lambda s: boundary_key in s) if boundary_key else None)

    def one(ch):
        p, first = ch
        r = tlc(module, cfg, workers=1, env={"TRACE": p}, timeout=timeout, dfs=dfs, tag=module + "_j", xmx="3g")
        v = _verdict_lines(r.out)
        if r.rc != 0 and "VERDICT" not in v and "STUCK" not in v:
            raise Infra("trace judge %s failed on %s (rc=%d):\n%s" % (module, p, r.rc, "\n".join(r.out.splitlines()[-40:])))
        bad = []
        n = 0
        if "VERDICT" in v:
            vd = v["VERDICT"][-1]
            n = vd["n"]
            for b in vd["bad"]:
                b = dict(b)
                b["l"] = b["l"] + first
                bad.append(b)
        elif "STUCK" in v:
            ln = int(v["STUCK"][-1])
            bad.append({"l": ln + first, "op": "?", "why": ["no-action-explains-event"]})
        else:
            raise Infra("trace judge %s gave no verdict on %s:\n%s" % (module, p, "\n".join(r.out.splitlines()[-40:])))
        return bad, r.generated
    res = parallel(one, chunks)
    bad = []
    states = 0
    for b, g in res:
        bad += b
        states += g
    for p, _ in chunks:
        try:
            os.unlink(p)
        except OSError:
            pass
    ctx.extra["trace_states"] = ctx.extra.get("trace_states", 0) + states
    return sorted(bad, key=lambda b: b["l"])


def history_of(lines, lineno, boundary_key='"e":"reset"'):
    """The lines of the history containing 1-based line `lineno`, up to and including it."""
    i = lineno - 1
    j = i
    while j > 0 and boundary_key not in lines[j]:
        j -= 1
    return lines[j:i + 1]
