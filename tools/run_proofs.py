#!/usr/bin/env python3
"""Re-checks the TLAPS proofs under spec/proofs/ (unbounded complements to bounded TLC laws).
Prints one line per module and writes build/proofs.json; exit 0 iff every obligation is proved.
Used by the thorough tier of the checks that cite a proof (never required for a verdict about the
code: a missing tlapm is reported, not an alarm)."""
import glob, json, os, re, shutil, subprocess, sys, time
V = os.path.dirname(os.path.dirname(os.path.abspath(__file__)))


def run_all(timeout=1500):
    res = {}
    if shutil.which("tlapm") is None:
        return {"_error": "tlapm not installed"}
    for f in sorted(glob.glob(os.path.join(V, "spec", "proofs", "*.tla"))):
        d = os.path.dirname(f)
        shutil.rmtree(os.path.join(d, ".tlacache"), ignore_errors=True)
        t0 = time.time()
        try:
            p = subprocess.run(["tlapm", os.path.basename(f)], cwd=d, stdout=subprocess.PIPE, stderr=subprocess.STDOUT,
                               text=True, timeout=timeout)
            out = p.stdout
        except subprocess.TimeoutExpired:
            out = "timeout"
        shutil.rmtree(os.path.join(d, ".tlacache"), ignore_errors=True)
        m = re.search(r"All (\d+) obligations proved", out)
        m2 = re.search(r"(\d+)/(\d+) obligations failed", out)
        if m:
            res[os.path.basename(f)] = {"obligations": int(m.group(1)), "proved": int(m.group(1)), "wall_s": round(time.time() - t0, 1)}
        elif m2:
            res[os.path.basename(f)] = {"obligations": int(m2.group(2)), "proved": int(m2.group(2)) - int(m2.group(1)), "wall_s": round(time.time() - t0, 1)}
        else:
            res[os.path.basename(f)] = {"obligations": 0, "proved": 0, "error": out[-300:]}
    return res


if __name__ == "__main__":
    r = run_all()
    os.makedirs(os.path.join(V, "build"), exist_ok=True)
    json.dump(r, open(os.path.join(V, "build", "proofs.json"), "w"), indent=1)
    ok = "_error" not in r and all(v["obligations"] > 0 and v["proved"] == v["obligations"] for v in r.values())
    for k, v in r.items():
        print(k, v)
    sys.exit(0 if ok else 1)
