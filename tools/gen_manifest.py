#!/usr/bin/env python3
"""Writes /verif/MANIFEST.json from checks/meta.json (one source of truth)."""
import json
import os

V = os.path.dirname(os.path.dirname(os.path.abspath(__file__)))
meta = {}
for f in sorted(os.listdir(os.path.join(V, "checks", "meta"))):
    if f.endswith(".json"):
        meta[f[:-5]] = json.load(open(os.path.join(V, "checks", "meta", f)))
props = [json.loads(l) for l in open(os.path.join(V, "properties.jsonl"))]
# checks/claimed.txt: ids the coordinator has verified on the unchanged tree (exit 0, evidence valid)
claimed = set(open(os.path.join(V, "checks", "claimed.txt")).read().split())
checks = []
na = []
for p in props:
    pid = p["id"]
    m = meta.get(pid)
    if pid in claimed and m and os.path.exists(os.path.join(V, "checks", pid.lower() + ".py")):
        checks.append({
            "property_id": pid,
            "quick_cmd": "./check %s --tier quick" % pid,
            "thorough_cmd": "./check %s --tier thorough" % pid,
            "evidence_file": "/verif/evidence/%s.json" % pid,
            "replay_cmd_template": "./check %s --replay {path}" % pid,
            "engine": "tlc",
            "level_claimed": {"category": m["category"], "text": m["text"], "design_ref": m.get("design_ref", "DESIGN.md")},
            "level_note": m["note"],
            "technique": m["technique"],
        })
    else:
        na.append({"property_id": pid, "reason": (m or {}).get("reason", "check not built yet (work in progress; see DESIGN.md section 7)")})
man = {
    "version": 1,
    "setup_cmd": "python3 tools/setup.py",
    "hooks": {
        "guard": "FCPPT_VERIF_HOOKS",
        "enable": "no source hooks: every check drives fcppt through public seams (allocator parameter, abstract stream class, caller-supplied sinks/generators); harnesses compile /repo sources directly with -DFCPPT_STATIC_LINK",
        "baseline_off_cmd": "cmake --build /repo/_build -j16 && ctest --test-dir /repo/_build -j8 --timeout 900",
        "source_commits": [],
        "add_only": True,
    },
    "engines": [{"name": "tlc", "path": "/opt/veriftools/tla/tla2tools.jar",
                 "serves_properties": [c["property_id"] for c in checks],
                 "kind_free_text": "TLC 1.8 explicit-state model checker: model checks of spec/*.tla and trace validation (spec/*Trace.tla) of ndjson logs recorded from the real code by harness/*.cpp"}],
    "checks": checks,
    "not_applicable": na,
    "notes": "Entry point ./check <ID> --tier quick|thorough|--replay FILE (tools/check.py). Exit 0 ok, 1 VIOLATION, 2 infrastructure failure. VERIF_REPO overrides the fcppt root (seeded mutants on scratch copies). known_findings.json lists open findings and fixed defects.",
}
with open(os.path.join(V, "MANIFEST.json"), "w") as f:
    json.dump(man, f, indent=1)
    f.write("\n")
print("claimed:", [c["property_id"] for c in checks])
