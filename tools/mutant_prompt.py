#!/usr/bin/env python3
"""Prints the prompt for an independent mutation sub-agent: tools/mutant_prompt.py C09 C09a ["focus hint"]
(also creates the private worktree /tmp/mut/<name>)."""
import json, os, subprocess, sys
pid, name = sys.argv[1], sys.argv[2]
hint = sys.argv[3] if len(sys.argv) > 3 else ""
V = os.path.dirname(os.path.dirname(os.path.abspath(__file__)))
p = [json.loads(l) for l in open(os.path.join(V, "properties.jsonl")) if json.loads(l)["id"] == pid][0]
wt = "/tmp/mut/" + name
os.makedirs("/tmp/mut", exist_ok=True)
if not os.path.exists(wt):
    subprocess.run(["git", "-C", "/repo", "worktree", "add", "--detach", wt, "HEAD"], stdout=subprocess.DEVNULL, stderr=subprocess.DEVNULL)
files = ", ".join(p["anchors"]["files"][:14])
print(f"""You are helping to evaluate a verification effort by seeding one realistic bug into a C++20 library. The library is freundlich/fcppt; you have a private git worktree of it at {wt} (HEAD = current state). Work ONLY inside that directory. Do not read or modify /repo (except including the generated config headers under /repo/_build/include as described below) or /verif, and do not look for any verification material: your change must be independent of it. The sandbox is offline.

A property that the library is supposed to satisfy:
  Title: {p['title']}
  Statement: {p['statement']}
  Scope: {p['quantifier']['text']}
  (Relevant code, among others: {files}.)

Task: make ONE small change to the library sources under {wt}/libs (not to tests, docs or build files) that BREAKS this property, while (a) the library still compiles, (b) the existing test-suite under {wt}/test still passes, and (c) the breakage needs something specific to manifest — a particular multi-step sequence of operations, an unusual input or size, aliasing, a specific state reached only through certain operations, or two cooperating sites that each look fine alone — NOT something ordinary use would expose at once (a change that breaks every call is useless). The change should look like a plausible regression (an off-by-one in one branch, a dropped step in a rarely taken path, a wrong operand in one overload, ...), 1-10 lines. {hint}

Also write a demonstration: a small standalone program {wt}/out/demo.cpp that uses the public API, exits 0 and prints PASS on the unmodified library and exits non-zero / prints FAIL with your change (it may rely on -fsanitize=address,undefined or -fsanitize=thread if the breakage is a memory error / data race; say so). fcppt is mostly header-only: compile with
  g++ -std=c++20 -O1 -g -I{wt}/libs/core/include -I{wt}/libs/parse/include -I{wt}/libs/options/include -I{wt}/libs/log/include -I{wt}/libs/filesystem/include -I/repo/_build/include demo.cpp -o demo
(/repo/_build/include only holds generated config headers; for functions implemented in .cpp files add the needed {wt}/libs/<lib>/src/**.cpp and libs/<lib>/impl/src/**.cpp files and -DFCPPT_STATIC_LINK, plus -I{wt}/libs/<lib>/impl/include -I/repo/_build/impl/include). The demo must be a single file demo.cpp that compiles with such a command line (state the exact command in the README). Check the demo both ways WITHOUT git stash (the stash is shared by all worktrees of the repository and other agents work in sibling worktrees): `git diff > out/patch.diff; git apply -R out/patch.diff; <build+run demo>; git apply out/patch.diff`.

To check the existing tests: configure once
  cmake -G Ninja -S {wt} -B {wt}/_build -DCMAKE_BUILD_TYPE=RelWithDebInfo -DCMAKE_CXX_FLAGS=-Wno-error -DENABLE_EXAMPLES=OFF -DENABLE_TEST=ON
then build and run at least every test that includes a file you changed, directly or indirectly (grep the test sources; test targets are named fcppt_test_<dir>_<file>; `ninja -C _build -j4 <targets>`; `ctest --test-dir _build -R <regex>`). Use at most 4 parallel jobs: the machine is shared.

Deliver in {wt}/out/: patch.diff (output of `git diff` for libs/), demo.cpp, and README.md saying what the change is, why it breaks the property, exactly what is needed for it to manifest, which tests you built and ran and their result. Leave the change applied in the worktree. Your final message: the same summary in a few lines.""")
