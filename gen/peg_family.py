#!/usr/bin/env python3
"""Type-directed generator of the fcppt.parse grammar family of property C02.

The same family is emitted twice:
  * grammars.json  - the grammar ASTs (every node annotated with its result type) that
                     spec/Peg.tla interprets, the skipper table and, per grammar, the skippers
                     it is run under;
  * c02_gen_<k>.cpp - C++ translation units building the very same parsers from the fcppt.parse
                     combinators (one function per grammar id, templated on the character type).

The generator is deterministic in (seed, tier).  It only emits shapes that the library accepts
and that terminate by design (DESIGN.md 3.2):
  * not_ / convert_const operands, separator and list delimiters have result type unit
    (static_asserts of the library);
  * repetition_plus needs an element type that is neither unit nor a tuple (its implementation
    takes tuple::get<0> of `p >> *p`, which does not compile otherwise);
  * complement only over a char_set;
  * no repetition (rep, plus, separator, list) of a nullable parser; no left recursion;
  * a grammar with a repetition outside lexeme is only run under skippers that cannot fail
    (what happens to the element when the skipper fails after it is under-specified);
  * `named` only over parsers that cannot fail fatally (named drops the fatal flag - as coded,
    undocumented, so it is kept unobservable).
The type rules here are the generator's own (needed to produce well-typed C++); spec/PegTypes.tla
has them independently and TLC checks that both agree on every node (WellTyped).
"""
import json
import random
import sys

# ------------------------------------------------------------------ types
UNIT = {"t": "unit"}
CHAR = {"t": "char"}
INT = {"t": "int"}
UINT = {"t": "uint"}
FLOAT = {"t": "float"}
STR = {"t": "str"}


def tvec(e):
    return {"t": "vec", "e": e}


def topt(e):
    return {"t": "opt", "e": e}


def ttup(es):
    return {"t": "tup", "es": es}


def tvar(es):
    return {"t": "var", "es": es}


def tbox(e):
    return {"t": "box", "e": e}


def trec(e):
    return {"t": "rec", "e": e}


def seq_ty(l, r):
    if l == UNIT:
        return r
    if r == UNIT:
        return l
    tl = l["es"] if l["t"] == "tup" else [l]
    tr = r["es"] if r["t"] == "tup" else [r]
    return ttup(tl + tr)


def alt_ty(l, r):
    vl = l["es"] if l["t"] == "var" else [l]
    vr = r["es"] if r["t"] == "var" else [r]
    u = []
    for x in vl + vr:
        if x not in u:
            u.append(x)
    return u[0] if len(u) == 1 else tvar(u)


def rep_ty(e):
    return STR if e == CHAR else tvec(e)


def ty_size(t):
    n = 1
    for k in ("e",):
        if k in t:
            n += ty_size(t[k])
    for x in t.get("es", []):
        n += ty_size(x)
    return n


# ------------------------------------------------------------------ nodes
def leaf(k, ty, **kw):
    d = {"k": k, "ty": ty}
    d.update(kw)
    return d


def eps():
    return leaf("eps", UNIT)


def fail():
    return leaf("fail", UNIT)


def probe(i):
    return leaf("probe", UNIT, id=i)


def char():
    return leaf("char", CHAR)


def lit(c):
    return leaf("lit", UNIT, c=ord(c))


def cset(s):
    return leaf("cset", CHAR, cs=[ord(c) for c in s])


def compl(s):
    return leaf("compl", CHAR, cs=[ord(c) for c in s])


def string(w):
    return leaf("str", UNIT, w=[ord(c) for c in w])


def uint():
    return leaf("uint", UINT)


def int_():
    return leaf("int", INT)


def float_():
    return leaf("float", FLOAT)


def nullable(g):
    k = g["k"]
    if k in ("eps", "probe", "rep", "opt", "not", "sep"):
        return True
    if k in ("fail", "char", "lit", "cset", "compl", "uint", "int", "float", "ref"):
        return False
    if k == "str":
        return len(g["w"]) == 0
    if k == "seq":
        return nullable(g["l"]) and nullable(g["r"])
    if k == "alt":
        return nullable(g["l"]) or nullable(g["r"])
    if k == "list":
        return nullable(g["b"]) and nullable(g["e"])
    return nullable(g["g"])


def kids(g):
    k = g["k"]
    if k in ("seq", "alt"):
        return [g["l"], g["r"]]
    if k == "sep":
        return [g["i"], g["s"]]
    if k == "list":
        return [g["b"], g["i"], g["s"], g["e"]]
    if "g" in g:
        return [g["g"]]
    return []


def subterms(g):
    yield g
    for c in kids(g):
        yield from subterms(c)


def has_kind(g, ks):
    return any(h["k"] in ks for h in subterms(g))


def depth(g):
    return 1 + max([depth(c) for c in kids(g)] + [0])


def rep_outside_lexeme(g):
    """a repetition that runs the ambient skipper"""
    if g["k"] == "lexeme":
        return False
    if g["k"] in ("rep", "plus", "sep", "list"):
        return True
    return any(rep_outside_lexeme(c) for c in kids(g))


class IllTyped(Exception):
    pass


def need(c):
    if not c:
        raise IllTyped()


def seq(l, r):
    return {"k": "seq", "l": l, "r": r, "ty": seq_ty(l["ty"], r["ty"])}


def alt(l, r):
    return {"k": "alt", "l": l, "r": r, "ty": alt_ty(l["ty"], r["ty"])}


def rep(g):
    need(not nullable(g))
    return {"k": "rep", "g": g, "ty": rep_ty(g["ty"])}


def plus(g):
    need(not nullable(g))
    need(g["ty"]["t"] not in ("unit", "tup"))
    return {"k": "plus", "g": g, "ty": rep_ty(g["ty"])}


def opt(g):
    return {"k": "opt", "g": g, "ty": topt(g["ty"])}


def not_(g):
    need(g["ty"] == UNIT)
    return {"k": "not", "g": g, "ty": UNIT}


def fatal(g):
    return {"k": "fatal", "g": g, "ty": g["ty"]}


def lexeme(g):
    return {"k": "lexeme", "g": g, "ty": g["ty"]}


def named(g):
    need(not has_kind(g, ("fatal",)))
    return {"k": "named", "g": g, "ty": g["ty"]}


def ignore(g):
    return {"k": "ignore", "g": g, "ty": UNIT}


def recursive(g):
    return {"k": "recursive", "g": g, "ty": trec(g["ty"])}


def conv(f, g):
    if f == "code":
        need(g["ty"] == CHAR)
        return {"k": "conv", "f": f, "g": g, "ty": INT}
    if f == "len":
        need(g["ty"]["t"] in ("str", "vec"))
        return {"k": "conv", "f": f, "g": g, "ty": INT}
    if f == "box":
        return {"k": "conv", "f": f, "g": g, "ty": tbox(g["ty"])}
    if f == "inc":
        need(g["ty"] == INT)
        return {"k": "conv", "f": f, "g": g, "ty": INT}
    if f == "struct":      # as_struct<S>: tuple -> struct of its elements
        need(g["ty"]["t"] == "tup")
        return {"k": "conv", "f": f, "g": g, "ty": tbox(g["ty"])}
    if f == "swap":        # convert on a 2-tuple
        need(g["ty"]["t"] == "tup" and len(g["ty"]["es"]) == 2)
        return {"k": "conv", "f": f, "g": g, "ty": ttup([g["ty"]["es"][1], g["ty"]["es"][0]])}
    raise IllTyped()


def convif(f, g):
    if f == "is_a":
        need(g["ty"] == CHAR)
        return {"k": "convif", "f": f, "g": g, "ty": INT}
    if f == "nonempty":
        need(g["ty"]["t"] in ("str", "vec"))
        return {"k": "convif", "f": f, "g": g, "ty": g["ty"]}
    if f == "ordered":     # convert_if on a tuple of two characters
        need(g["ty"] == ttup([CHAR, CHAR]))
        return {"k": "convif", "f": f, "g": g, "ty": g["ty"]}
    raise IllTyped()


def cconst(g):
    need(g["ty"] == UNIT)
    return {"k": "cconst", "g": g, "v": {"t": "int", "n": 7}, "ty": INT}


def sep(i, s):
    need(s["ty"] == UNIT)
    need(not (nullable(i) and nullable(s)))
    need(not nullable(i))   # the first element parser is also repeated after the separator
    return {"k": "sep", "i": i, "s": s, "ty": tvec(i["ty"])}


def list_(b, i, s, e):
    need(b["ty"] == UNIT and s["ty"] == UNIT and e["ty"] == UNIT)
    need(not nullable(i))
    return {"k": "list", "b": b, "i": i, "s": s, "e": e, "ty": tvec(i["ty"])}


# ------------------------------------------------------------------ C++ emission
def cch(c):
    return "Ch(%d)" % c


def cpp(g):
    """C++ expression (inside a template over Ch) building the parser"""
    k = g["k"]
    if k == "eps":
        return "p::epsilon{}"
    if k == "fail":
        return "p::fail<fcppt::unit>{}"
    if k == "probe":
        return "c02::probe{%d}" % g["id"]
    if k == "char":
        return "p::basic_char<Ch>{}"
    if k == "lit":
        return "p::basic_literal<Ch>{%s}" % cch(g["c"])
    if k == "cset":
        return "p::basic_char_set<Ch>{%s}" % ", ".join(cch(c) for c in g["cs"])
    if k == "compl":
        return "(~p::basic_char_set<Ch>{%s})" % ", ".join(cch(c) for c in g["cs"])
    if k == "str":
        return "p::basic_string<Ch>{std::basic_string<Ch>{%s}}" % ", ".join(cch(c) for c in g["w"])
    if k == "uint":
        return "p::uint<unsigned short>{}"
    if k == "int":
        return "p::int_<int>{}"
    if k == "float":
        return "p::float_<double>{}"
    if k == "seq":
        return "(%s >> %s)" % (cpp(g["l"]), cpp(g["r"]))
    if k == "alt":
        return "(%s | %s)" % (cpp(g["l"]), cpp(g["r"]))
    if k == "rep":
        return "(*%s)" % cpp(g["g"])
    if k == "plus":
        return "(+%s)" % cpp(g["g"])
    if k == "opt":
        return "(-%s)" % cpp(g["g"])
    if k == "not":
        return "(!%s)" % cpp(g["g"])
    if k == "fatal":
        return "p::make_fatal(%s)" % cpp(g["g"])
    if k == "lexeme":
        return "p::make_lexeme(%s)" % cpp(g["g"])
    if k == "named":
        return "c02::name<Ch>(%s)" % cpp(g["g"])
    if k == "ignore":
        return "p::make_ignore(%s)" % cpp(g["g"])
    if k == "recursive":
        return "p::make_recursive(%s)" % cpp(g["g"])
    if k == "conv":
        return "c02::conv_%s<Ch>(%s)" % (g["f"], cpp(g["g"]))
    if k == "convif":
        return "c02::convif_%s<Ch>(%s)" % (g["f"], cpp(g["g"]))
    if k == "cconst":
        return "p::convert_const{%s, int{7}}" % cpp(g["g"])
    if k == "sep":
        return "p::separator{%s, %s}" % (cpp(g["i"]), cpp(g["s"]))
    if k == "list":
        return "p::list{%s, %s, %s, %s}" % (cpp(g["b"]), cpp(g["i"]), cpp(g["s"]), cpp(g["e"]))
    raise ValueError(k)


SKIPPERS = {
    "eps": {"k": "eps"},
    "space": {"k": "rep", "g": {"k": "cset", "cs": [32, 10, 9]}},
    "cset": {"k": "cset", "cs": [32, 48]},
    "lit": {"k": "lit", "c": 32},
    "rep": {"k": "rep", "g": {"k": "lit", "c": 32}},
    "seq": {"k": "seq", "l": {"k": "lit", "c": 32}, "r": {"k": "rep", "g": {"k": "cset", "cs": [32]}}},
    "repseq": {"k": "rep", "g": {"k": "seq", "l": {"k": "lit", "c": 32}, "r": {"k": "lit", "c": 32}}},
}
SK_NOFAIL = ["space", "rep", "repseq"]
SK_FAIL = ["cset", "lit", "seq"]

# ------------------------------------------------------------------ the family
LEAVES = [
    lambda: eps(), lambda: fail(), lambda: char(), lambda: lit("a"), lambda: lit("b"), lambda: lit("0"),
    lambda: cset("ab"), lambda: cset("0"), lambda: cset("a "), lambda: compl("a"), lambda: compl(" 0"),
    lambda: string("ab"), lambda: string("a"), lambda: string("a a"), lambda: uint(), lambda: int_(), lambda: float_(),
]
UNARY = [rep, plus, opt, not_, fatal, lexeme, named, ignore, recursive, cconst,
         lambda g: conv("code", g), lambda g: conv("len", g), lambda g: conv("box", g),
         lambda g: convif("is_a", g), lambda g: convif("nonempty", g),
         lambda g: conv("struct", g), lambda g: conv("swap", g), lambda g: convif("ordered", g)]
UNARY_NAMES = ["rep", "plus", "opt", "not", "fatal", "lexeme", "named", "ignore", "recursive", "cconst",
               "code", "len", "box", "is_a", "nonempty"]


class Gen:
    def __init__(self, rng):
        self.rng = rng
        self.nprobe = 0

    def new_probe(self):
        self.nprobe += 1
        return probe(self.nprobe)

    def leaf(self):
        return self.rng.choice(LEAVES)()

    def unit_leaf(self):
        return self.rng.choice([lambda: lit("a"), lambda: lit("b"), lambda: lit("0"), lambda: lit(" "), lambda: string("ab"), lambda: string("a")])()

    def gen(self, d):
        """a random well-typed grammar of depth <= d"""
        r = self.rng
        for _ in range(50):
            try:
                if d <= 1 or r.random() < 0.15:
                    return self.leaf()
                c = r.random()
                if c < 0.30:
                    l = self.gen(d - 1)
                    rr = self.gen(d - 1)
                    if r.random() < 0.25:
                        rr = seq(self.new_probe(), rr)
                    return seq(l, rr)
                if c < 0.55:
                    l = self.gen(d - 1)
                    rr = self.gen(d - 1)
                    if r.random() < 0.5:
                        rr = seq(self.new_probe(), rr)   # makes the rewind position observable
                    g = alt(l, rr)
                    need(ty_size(g["ty"]) <= 8)
                    return g
                if c < 0.62:
                    return sep(self.gen(d - 1), self.unit_leaf())
                if c < 0.66:
                    return list_(self.unit_leaf(), self.gen(d - 1), self.unit_leaf(), self.unit_leaf())
                g = r.choice(UNARY)(self.gen(d - 1))
                if g["k"] in ("rep", "plus", "opt") and r.random() < 0.4:
                    g = seq(g, self.new_probe())       # position after the rewind of rep / opt
                return g
            except IllTyped:
                continue
        return self.leaf()


def handpicked(G):
    P = G.new_probe
    a, b, z, sp = lit("a"), lit("b"), lit("0"), lit(" ")
    out = [
        # ordered choice and rewinding
        alt(seq(lit("a"), lit("b")), seq(P(), seq(lit("a"), lit("a")))),
        alt(string("ab"), seq(P(), string("a"))),
        alt(seq(cset("ab"), lit("b")), seq(P(), seq(char(), char()))),
        alt(alt(string("aa"), seq(P(), string("ab"))), seq(P(), char())),
        alt(seq(a, fatal(b)), seq(P(), seq(a, a))),
        alt(fatal(seq(a, b)), seq(P(), a)),
        alt(seq(a, seq(a, b)), alt(seq(P(), seq(a, a)), seq(P(), a))),
        # repetition: greedy, element then skipper, commit after both
        seq(rep(lit("a")), P()),
        seq(rep(seq(lit("a"), lit("b"))), seq(P(), opt(lit("a")))),
        seq(rep(cset("ab")), seq(P(), lit("0"))),
        seq(rep(seq(a, fatal(b))), P()),
        seq(rep(alt(string("ab"), seq(P(), string("a")))), P()),
        seq(plus(cset("a")), seq(P(), rep(cset("b")))),
        rep(seq(opt(lit("a")), lit("b"))),
        alt(seq(rep(a), b), seq(P(), rep(cset("ab")))),
        seq(rep(seq(cset("a"), opt(cset("b")))), P()),
        alt(seq(rep(seq(opt(a), b)), z), seq(P(), rep(char()))),
        # optional
        seq(opt(seq(a, b)), seq(P(), char())),
        seq(opt(fatal(seq(a, b))), P()),
        seq(opt(seq(a, fatal(b))), seq(P(), rep(char()))),
        opt(alt(string("ab"), seq(P(), string("b")))),
        # negative lookahead
        seq(not_(seq(a, b)), seq(P(), rep(char()))),
        seq(not_(fatal(a)), seq(P(), char())),
        seq(not_(not_(a)), seq(P(), char())),
        rep(seq(not_(b), seq(P(), char()))),
        seq(not_(seq(a, seq(P(), b))), seq(P(), string("aa"))),
        alt(seq(not_(a), char()), seq(P(), string("ab"))),
        # fatal stops backtracking - also through opt / rep / alt
        alt(seq(a, fatal(seq(b, z))), seq(P(), rep(char()))),
        alt(opt(seq(a, fatal(b))), seq(P(), string("aa"))),
        alt(rep(seq(a, fatal(b))), seq(P(), char())),
        alt(alt(seq(a, fatal(b)), seq(P(), a)), seq(P(), char())),
        seq(not_(seq(a, fatal(b))), seq(P(), rep(char()))),
        # lexeme / skipper placement
        seq(lexeme(seq(a, b)), seq(P(), a)),
        seq(seq(a, P()), seq(lexeme(seq(b, seq(P(), a))), P())),
        lexeme(rep(seq(a, b))),
        seq(lexeme(rep(a)), seq(P(), rep(b))),
        seq(a, seq(P(), seq(b, P()))),
        seq(rep(seq(a, lexeme(seq(b, b)))), P()),
        alt(lexeme(seq(a, b)), seq(P(), seq(a, seq(P(), b)))),
        # separator / list
        sep(cset("ab"), z),
        seq(sep(plus(cset("a")), b), P()),
        list_(a, cset("b0"), sp, a),
        list_(a, plus(cset("0")), b, a),
        seq(sep(seq(a, opt(cset("b"))), z), P()),
        list_(a, fatal(cset("b")), z, a),
        alt(list_(a, cset("b"), z, a), seq(P(), rep(char()))),
        # numbers
        seq(uint(), seq(P(), uint())),
        seq(int_(), seq(P(), opt(lit("a")))),
        alt(float_(), seq(P(), int_())),
        alt(uint(), seq(P(), int_())),
        sep(uint(), sp),
        rep(seq(uint(), a)),
        # conversions
        alt(conv("code", char()), cconst(eps())),
        rep(convif("is_a", char())),
        alt(convif("is_a", cset("ab")), seq(P(), conv("code", cset("b")))),
        seq(convif("nonempty", rep(cset("a"))), seq(P(), rep(char()))),
        conv("box", seq(cset("a"), cset("b"))),
        recursive(rep(seq(cset("a"), cset("b")))),
        named(alt(seq(a, b), seq(P(), a))),
        alt(named(seq(a, b)), seq(P(), seq(a, z))),
        ignore(rep(seq(cset("ab"), opt(z)))),
        # result types: unit dropping, tuple flattening, variant flattening / dedup
        seq(seq(cset("a"), cset("b")), seq(cset("a"), cset("b"))),
        seq(seq(cset("a"), b), seq(a, cset("b"))),
        alt(alt(cset("a"), uint()), alt(cset("b"), string("  "))),
        alt(alt(cset("a"), uint()), alt(uint(), cset("b"))),
        alt(seq(cset("a"), cset("b")), alt(cset("a"), rep(cset("0")))),
        seq(alt(cset("a"), uint()), alt(a, cconst(b))),
        opt(opt(cset("a"))),
        rep(plus(cset("a"))),
        seq(rep(lit("a")), rep(seq(lit("b"), opt(lit("0"))))),
        alt(seq(a, eps()), seq(P(), eps())),
        seq(fail(), P()),
        alt(fail(), seq(P(), rep(char()))),
        seq(string("a a"), seq(P(), char())),
        alt(string("a a"), seq(P(), seq(a, seq(P(), a)))),
        # ---- extension round
        # error locations inside grammars: which alternatives' errors are present, in order
        alt(seq(a, b), alt(seq(a, z), seq(cset("b"), a))),
        alt(seq(a, fatal(b)), seq(a, z)),
        alt(seq(a, b), fatal(seq(a, z))),
        seq(a, alt(seq(b, z), seq(b, cset("a ")))),
        alt(seq(cset("a"), cset("b")), alt(string("ab"), compl("ab"))),
        seq(rep(seq(a, fatal(cset("b0")))), z),
        opt(seq(a, fatal(alt(b, z)))),
        alt(named(seq(a, b)), seq(a, z)),
        alt(convif("is_a", cset("ab")), seq(b, cset("a"))),
        alt(seq(uint(), a), seq(int_(), b)),
        list_(a, fatal(alt(cset("b"), uint())), z, a),
        alt(lexeme(seq(a, b)), seq(a, seq(b, z))),
        # fatal flag through value-mapping combinators
        alt(conv("code", fatal(cset("a"))), seq(P(), char())),
        alt(ignore(seq(a, fatal(b))), seq(P(), rep(char()))),
        alt(recursive(seq(cset("a"), fatal(cset("b")))), seq(P(), rep(char()))),
        alt(cconst(seq(a, fatal(b))), seq(P(), conv("code", char()))),
        alt(convif("is_a", fatal(cset("b"))), seq(P(), conv("code", char()))),
        alt(lexeme(seq(a, fatal(b))), seq(P(), rep(char()))),
        alt(plus(conv("box", seq(cset("a"), fatal(cset("b"))))), seq(P(), rep(char()))),
        alt(sep(seq(cset("a"), fatal(cset("b"))), z), seq(P(), rep(char()))),
        # separator / list with non-unit (tuple, variant, optional) items
        sep(seq(cset("ab"), cset("ab")), z),
        sep(alt(cset("a"), uint()), sp),
        sep(seq(cset("a"), opt(cset("b"))), z),
        list_(a, seq(cset("b"), seq(cset("0"), cset("b"))), z, a),
        list_(a, alt(uint(), cset("b")), sp, a),
        seq(sep(seq(cset("a"), uint()), b), P()),
        # convert_if / construct / as_struct with tuples
        conv("struct", seq(cset("ab"), cset("ab"))),
        conv("struct", seq(cset("a"), seq(uint(), opt(cset("b"))))),
        rep(conv("struct", seq(cset("a"), cset("b")))),
        conv("swap", seq(cset("ab"), uint())),
        convif("ordered", seq(cset("ab"), cset("ab"))),
        alt(convif("ordered", seq(cset("ab"), cset("ab"))), seq(P(), seq(char(), char()))),
        rep(convif("ordered", seq(cset("ab"), cset("ab")))),
        conv("box", seq(cset("a"), seq(cset("b"), cset("0")))),
        sep(conv("struct", seq(cset("ab"), cset("0"))), sp),
        # the string parser under skippers (no skipping inside the string)
        seq(string("ab"), seq(P(), string("ab"))),
        rep(string("ab")),
        seq(string("a b"), seq(P(), string("b"))),
        alt(string("ab "), seq(P(), seq(string("ab"), a))),
        sep(string("ab"), z),
        # complement
        rep(compl("a")),
        seq(plus(compl(" ")), seq(P(), plus(compl(" ")))),
        alt(seq(compl("a"), a), seq(P(), seq(compl("b"), b))),
        sep(plus(compl("0 ")), z),
        # float_: only success / position are judged
        seq(float_(), seq(P(), opt(a))),
        sep(float_(), sp),
        alt(seq(float_(), a), seq(P(), seq(uint(), rep(char())))),
        rep(seq(float_(), opt(b))),
    ]
    return out


def family(seed, tier):
    rng = random.Random(seed * 7919 + (1 if tier == "quick" else 2))
    G = Gen(rng)
    target = 125 if tier == "quick" else 440
    fam = []
    seen = set()

    def add(g):
        key = json.dumps(g, sort_keys=True)
        stripped = json.dumps(strip_probes(g), sort_keys=True)
        if stripped in seen:
            return False
        if depth(g) > 7:
            return False
        seen.add(stripped)
        fam.append(g)
        return True

    hp = handpicked(G)
    if tier == "quick":
        # a seed-dependent two thirds of the hand-picked shapes
        hp = [g for i, g in enumerate(hp) if (i + seed) % 3 != 0]
    for g in hp:
        add(g)
    # every unary combinator over every leaf that types (thorough) / a seeded sample (quick)
    d1 = []
    for u in UNARY:
        for lf in LEAVES:
            try:
                d1.append(u(lf()))
            except IllTyped:
                pass
    rng.shuffle(d1)
    for g in d1[: (len(d1) if tier != "quick" else 22)]:
        add(g)
    # random depth <= 3
    tries = 0
    while len(fam) < target and tries < 20000:
        tries += 1
        g = G.gen(3)
        if g["k"] in ("eps", "fail", "char", "lit", "cset", "compl", "str", "uint", "int", "float") and rng.random() < 0.8:
            continue
        add(g)
    return fam


def strip_probes(g):
    """structure without probe ids (dedup)"""
    if g["k"] == "probe":
        return {"k": "probe"}
    d = {}
    for k, v in g.items():
        if isinstance(v, dict) and "k" in v:
            d[k] = strip_probes(v)
        else:
            d[k] = v
    return d


def has_numeric_leaf(g):
    """uint / int_ / float_ are built from an internal lexeme: whether the ambient skipper runs inside them
    is observable only under a skipper that skips something between a sign / digit / dot"""
    if g["k"] in ("uint", "int", "float"):
        return True
    return any(has_numeric_leaf(c) for c in kids(g))


def skippers_for(g, idx, tier):
    allowed = SK_NOFAIL + ([] if rep_outside_lexeme(g) else SK_FAIL)
    if tier == "quick":
        rot = allowed[idx % len(allowed)]
        if has_numeric_leaf(g) and rot != "space":
            return ["eps", "space", rot]
        return ["eps", rot]
    rest = [s for s in allowed if s != "space"]
    return ["eps", "space", rest[idx % len(rest)]]


# hand-built recursive grammars (grammar / make_base / make_recursive), mirrored in
# harness/c02_main.cpp (grammar ids 9001, 9002)
def recursive_grammars():
    """hand-built grammars (grammar / make_base / make_recursive / base_unique_ptr), mirrored by hand in
    harness/c02_main.cpp: 9001 tree (list), 9002 nesting depth, 9003 balanced parentheses,
    9004 the JSON grammar of test/parse/json.cpp (objects kept as entry vectors)"""
    tree_ty = {"t": "named", "n": "tree"}
    t_list = {"k": "list", "b": lit("a"), "i": {"k": "recursive", "g": {"k": "ref", "n": "T", "ty": tree_ty}, "ty": trec(tree_ty)},
              "s": lit("0"), "e": lit("b"), "ty": tvec(trec(tree_ty))}
    g1 = {"id": 9001, "sks": ["eps"], "ps": {"T": {"k": "base", "g": {"k": "conv", "f": "box", "g": t_list, "ty": tbox(t_list["ty"])},
                                                   "ty": tbox(t_list["ty"])}},
          "g": {"k": "ref", "n": "T", "ty": tree_ty}, "entry": "grammar", "inputs": "std"}
    e_ref = {"k": "ref", "n": "E", "ty": INT}
    e_body = alt(conv("inc", seq(seq(lit("a"), e_ref), lit("b"))), cconst(lit("0")))
    e_body["r"]["v"] = {"t": "int", "n": 0}
    g2 = {"id": 9002, "sks": ["space"], "ps": {"E": {"k": "base", "g": e_body, "ty": INT}}, "g": e_ref, "entry": "grammar",
          "inputs": "std"}
    # 9003: S -> ( 'a' S 'b' )*   balanced parentheses as a forest, space skipper
    par_ty = {"t": "named", "n": "par"}
    s_ref = {"k": "ref", "n": "S", "ty": par_ty}
    s_elem = seq(seq(lit("a"), {"k": "recursive", "g": s_ref, "ty": trec(par_ty)}), lit("b"))
    s_rep = {"k": "rep", "g": s_elem, "ty": tvec(trec(par_ty))}
    g3 = {"id": 9003, "sks": ["space"], "ps": {"S": {"k": "base", "g": {"k": "conv", "f": "box", "g": s_rep, "ty": tbox(s_rep["ty"])},
                                                    "ty": tbox(s_rep["ty"])}},
          "g": s_ref, "entry": "grammar", "inputs": "std"}
    # 9004: JSON
    NULL, BOOL = {"t": "null"}, {"t": "bool"}
    jv = {"t": "named", "n": "jvalue"}
    arr_ty = tvec(trec(jv))
    ent_ty = ttup([STR, trec(jv)])
    obj_ty = tvec(ent_ty)

    def ref(n, ty):
        return {"k": "ref", "n": n, "ty": ty}

    def kconst(g, v, ty):
        return {"k": "cconst", "g": g, "v": v, "ty": ty}

    j_string = seq(seq(lit('"'), lexeme(rep(compl('"')))), lit('"'))
    j_value_alts = alt(alt(alt(alt(alt(kconst(string("null"), {"t": "null"}, NULL),
                                       alt(kconst(string("true"), {"t": "bool", "b": True}, BOOL),
                                           kconst(string("false"), {"t": "bool", "b": False}, BOOL))),
                                   int_()), ref("string_", STR)), ref("array_", arr_ty)), ref("object_", obj_ty))
    j_value = {"k": "conv", "f": "jvalue", "g": j_value_alts, "ty": tbox(j_value_alts["ty"])}
    rec_value = {"k": "recursive", "g": ref("value_", jv), "ty": trec(jv)}
    j_entry = seq(seq(ref("string_", STR), lit(":")), rec_value)
    j_object = {"k": "convif", "f": "uniqkeys", "g": seq(seq(lit("{"), {"k": "sep", "i": j_entry, "s": lit(","), "ty": tvec(j_entry["ty"])}), lit("}")),
                "ty": obj_ty}
    j_array = seq(seq(lit("["), {"k": "sep", "i": rec_value, "s": lit(","), "ty": arr_ty}), lit("]"))
    j_start = alt(ref("array_", arr_ty), ref("object_", obj_ty))

    def base(g):
        return {"k": "base", "g": g, "ty": g["ty"]}

    g4 = {"id": 9004, "sks": ["space"], "entry": "grammar", "inputs": "json",
          "ps": {"string_": base(j_string), "value_": base(j_value), "object_": base(j_object), "array_": base(j_array),
                 "start_": base(j_start)},
          "g": ref("start_", j_start["ty"])}
    return [g1, g2, g3, g4]


def emit(seed, tier, outdir, ntu=16):
    fam = family(seed, tier)
    grammars = []
    for i, g in enumerate(fam):
        grammars.append({"id": i + 1, "g": g, "ps": {}, "sks": skippers_for(g, i, tier), "entry": "string", "inputs": "std",
                         # wchar_t: every grammar in thorough, every 5th (rotating with the seed) in quick
                         "wide": tier != "quick" or (i + seed) % 5 == 0,
                         # the stream that turns bad at the end of the grammar: every 3rd grammar, epsilon skipper
                         "bad": (i + seed) % 3 == 1})
    doc = {"seed": seed, "tier": tier, "skippers": SKIPPERS, "grammars": grammars, "recursive": recursive_grammars()}
    with open(outdir + "/grammars.json", "w") as f:
        json.dump(doc, f, separators=(",", ":"))
    files = []
    for t in range(ntu):
        mine = [x for j, x in enumerate(grammars) if j % ntu == t]
        src = ['// generated by gen/peg_family.py (seed %d, tier %s) - do not edit' % (seed, tier),
               '#include "c02_common.hpp"', "namespace", "{", "namespace p = fcppt::parse;"]
        for x in mine:
            src.append("template <typename Ch> auto make_g%d() { return %s; }" % (x["id"], cpp(x["g"])))
        src.append("}")
        src.append("void c02_run_tu_%d(c02::runner &_r)" % t)
        src.append("{")
        for x in mine:
            for ch in (["char", "wchar_t"] if x["wide"] else ["char"]):
                for sk in x["sks"]:
                    src.append('  c02::run<%s>(_r, %d, make_g%d<%s>(), c02::sk_%s<%s>(), "%s");' % (ch, x["id"], x["id"], ch, sk, ch, sk))
            if x["bad"]:
                src.append('  c02::run_bad<char>(_r, %d, make_g%d<char>());' % (x["id"], x["id"]))
        src.append("}")
        p = "%s/c02_gen_%d.cpp" % (outdir, t)
        txt = "\n".join(src) + "\n"
        try:
            old = open(p).read()
        except OSError:
            old = None
        if old != txt:
            with open(p, "w") as f:
                f.write(txt)
        files.append(p)
    allsrc = ['// generated', '#include "c02_common.hpp"']
    for t in range(ntu):
        allsrc.append("void c02_run_tu_%d(c02::runner &);" % t)
    allsrc.append("void c02_run_all(c02::runner &_r)")
    allsrc.append("{")
    for t in range(ntu):
        allsrc.append("  if (_r.mine(%d)) c02_run_tu_%d(_r);" % (t, t))
    allsrc.append("}")
    p = outdir + "/c02_gen_all.cpp"
    txt = "\n".join(allsrc) + "\n"
    try:
        old = open(p).read()
    except OSError:
        old = None
    if old != txt:
        with open(p, "w") as f:
            f.write(txt)
    files.append(p)
    return doc, files


if __name__ == "__main__":
    seed = int(sys.argv[1])
    tier = sys.argv[2]
    outdir = sys.argv[3]
    doc, files = emit(seed, tier, outdir)
    print(len(doc["grammars"]), "grammars,", sum(len(x["sks"]) for x in doc["grammars"]), "grammar x skipper pairs")
