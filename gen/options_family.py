#!/usr/bin/env python3
"""C03: generator of the fcppt::options parser-shape family.

One description of every shape (a small AST) is emitted twice:
  * as C++ (c03_shapes_<k>.cpp, c03_registry.cpp) that builds the real fcppt::options parser, and
  * as JSON (parsers.json) that spec/Options.tla loads (the "program" TLC evaluates).
The generator contains no expected outcome of any parse: whether a definition is well formed and
what a parse returns is decided by spec/Options.tla alone.

Every shape has an alphabet of exactly 9 tokens: its own flag / option / sub-command names, then a
foreign flag, '-', '--', a number and a word, then fillers.  Tokens are referred to by a global
1-based id (the `tokens` table holds their code points).

usage: options_family.py OUTDIR [NPARTS]
"""
import json
import os
import sys

# ----------------------------------------------------------------------------- AST constructors


def arg(ty, help=None):
    return {"k": "argument", "ty": ty, "help": help}


def flag(short, long, ty, active, inactive, help=None):
    return {"k": "flag", "short": short, "long": long, "ty": ty, "active": active, "inactive": inactive, "help": help}


def sw(short, long, help=None):
    return {"k": "switch", "short": short, "long": long, "help": help}


def usw(short, long):
    return {"k": "unit_switch", "short": short, "long": long}


def opt(short, long, ty, default=None, help=None):
    return {"k": "option", "short": short, "long": long, "ty": ty, "default": default, "help": help}


def wrap(how, p):
    """how: base (make_base<result_of<P>>), base_permuted (make_base with the record elements in
    reverse order; p must be a product of leaves), cref (fcppt::make_cref of a parser kept alive)"""
    return {"k": "wrap", "how": how, "sub": p}


def unit():
    return {"k": "unit"}


def optional(p):
    return {"k": "optional", "sub": p}


def many(p):
    return {"k": "many", "sub": p}


def prod(*ps):
    """apply(p1, ..., pn) = product(p1, product(p2, ...)) (fcppt/options/detail/apply.hpp)"""
    assert len(ps) >= 2
    if len(ps) == 2:
        return {"k": "product", "l": ps[0], "r": ps[1], "chain": False}
    return {"k": "product", "l": ps[0], "r": prod(*ps[1:]), "chain": True}


def sm(l, r):
    return {"k": "sum", "l": l, "r": r}


def commands(common, *subs):
    return {"k": "commands", "common": common, "subs": [{"name": n, "p": p} for n, p in subs]}


# ----------------------------------------------------------------------------- the family
# (name, ast, flags)   flags: c = among the cheapest (argv <= 6 in the thorough tier), h = also driven
# through parse_help with the default help switch ("--help" is then part of the alphabet), H = also
# driven through parse_help with the custom help switch CUSTOM_HELP

FAMILY = [
    ("arg_int", arg("int"), "c"),
    ("arg_string", arg("string"), "c"),
    ("arg_enum", arg("enum"), ""),
    ("arg_unsigned", arg("unsigned"), ""),
    ("flag_int", flag("f", "flag", "int", 42, 10), "c"),
    ("flag_string", flag(None, "flag", "string", "yes", "no"), "c"),
    ("flag_enum_short", flag("f", "flag", "enum", "v", "w"), ""),
    ("flag_unsigned", flag(None, "flag", "unsigned", 1, 0), ""),
    ("switch", sw("f", "flag"), "c"),
    ("unit_switch", usw(None, "flag"), ""),
    ("opt_int", opt("o", "opt", "int"), "c"),
    ("opt_string", opt(None, "opt", "string"), "c"),
    ("opt_unsigned_default", opt("o", "opt", "unsigned", 7), ""),
    ("opt_enum_default", opt(None, "opt", "enum", "v"), ""),
    ("unit", unit(), ""),
    ("optional_arg", optional(arg("int")), ""),
    ("many_arg_string", many(arg("string")), "c"),
    ("many_arg_int", many(arg("int")), ""),
    ("optional_opt", optional(opt("o", "opt", "int")), ""),
    ("many_opt_string", many(opt(None, "opt", "string")), ""),
    ("many_unit_switch", many(usw("f", "flag")), ""),
    ("arg_then_opt", prod(arg("int"), opt(None, "opt", "string")), ""),
    ("opt_then_arg", prod(opt("o", "opt", "int"), arg("string")), ""),
    ("flag_arg_opt", prod(flag("f", "flag", "int", 1, 0), arg("string"), opt(None, "opt", "string", "d")), ""),
    ("switch_opt_many", prod(sw(None, "flag"), opt(None, "opt", "string"), many(arg("string"))), ""),
    ("many_then_opt", prod(many(arg("string")), opt("o", "opt", "string")), ""),
    ("switch_opt_default", prod(sw("f", "flag"), opt("o", "opt", "int", 3)), ""),
    ("optional_product", optional(prod(arg("int"), arg("int"))), ""),
    ("optional_product_then_many", prod(optional(prod(arg("int"), arg("unsigned"))), many(arg("string"))), ""),
    ("many_product", many(prod(arg("int"), arg("string"))), ""),
    ("many_product_opt", many(prod(opt(None, "opt", "int"), arg("string"))), ""),
    ("optional_product_uswitch", optional(prod(usw(None, "flag"), arg("int"))), ""),
    ("sum_uswitch_arg", sm(usw(None, "flag"), arg("int")), ""),
    ("sum_arg_arg", sm(arg("int"), arg("string")), ""),
    ("sum_product_many", sm(prod(arg("int"), arg("int")), many(arg("string"))), ""),
    ("optional_sum", optional(sm(usw("f", "flag"), opt(None, "opt", "int"))), ""),
    ("optional_sum_product", optional(sm(prod(arg("int"), arg("int")), usw(None, "flag"))), ""),
    ("product_sum_arg", prod(sm(usw(None, "flag"), usw(None, "zed")), arg("string")), ""),
    ("sum_same_names", sm(sw(None, "flag"), sw(None, "flag")), ""),
    # context propagation: for every composite C an option inside C with a positional consumer
    # that runs before it (inside or outside C), and the other way round
    ("sum_right_arg_opt", sm(usw(None, "flag"), prod(arg("int"), opt(None, "opt", "int"))), ""),
    ("sum_left_arg_opt", sm(prod(arg("int"), opt("o", "opt", "int")), usw(None, "flag")), ""),
    ("sum_nested_arg_opt", sm(usw(None, "flag"), sm(usw(None, "zed"), prod(arg("int"), opt(None, "opt", "int")))), ""),
    ("sum_arg_then_opt", prod(sm(usw(None, "flag"), arg("int")), opt(None, "opt", "int")), ""),
    ("arg_then_sum_opt", prod(arg("string"), sm(opt(None, "opt", "int"), usw(None, "flag"))), ""),
    ("optional_arg_opt", optional(prod(arg("int"), opt(None, "opt", "int"))), ""),
    ("arg_then_optional_opt", prod(arg("string"), optional(opt(None, "opt", "int"))), ""),
    ("optional_arg_then_opt", prod(optional(arg("int")), opt("o", "opt", "int")), ""),
    ("many_arg_opt", many(prod(arg("string"), opt(None, "opt", "int"))), ""),
    ("arg_then_many_opt", prod(arg("string"), many(opt(None, "opt", "int"))), ""),
    ("nested_product_left", prod(prod(arg("int"), opt(None, "opt", "int")), sw(None, "flag")), ""),
    ("commands_basic", commands(opt(None, "opt", "int", 7), ("ca", arg("int")), ("cb", unit())), ""),
    ("commands_switch", commands(sw(None, "flag"), ("ca", opt(None, "opt", "string")), ("cb", many(arg("string")))), ""),
    ("commands_unit", commands(unit(), ("ca", sw("f", "flag")), ("cb", arg("enum"))), ""),
    ("commands_sub_arg_opt", commands(sw(None, "flag"), ("ca", prod(arg("string"), opt(None, "opt", "int")))), ""),
    ("opt_then_commands", prod(opt(None, "opt", "int", 1), commands(unit(), ("ca", arg("string")))), ""),
    ("arg_then_commands", prod(arg("int"), commands(opt(None, "opt", "int", 7), ("ca", unit()))), ""),
    ("optional_commands", optional(commands(sw(None, "flag"), ("ca", arg("int")))), ""),
    ("help_arg", arg("int"), "h"),
    ("help_switch_arg", prod(sw("f", "flag"), arg("string")), "h"),
    ("help_commands", commands(opt(None, "opt", "int", 7), ("ca", unit())), "h"),
    ("help_arg_opt", prod(arg("int"), opt(None, "opt", "int")), "h"),
    ("help_many_opt", prod(many(arg("string")), opt("o", "opt", "string")), "h"),
    # extension round: composition forms, custom help switch, help texts, defaults of every type
    ("base_product", wrap("base", prod(arg("int"), sw(None, "flag"))), ""),
    ("base_permuted", wrap("base_permuted", prod(arg("int"), sw(None, "flag"), opt("o", "opt", "string", "d"))), ""),
    ("base_in_product", prod(wrap("base", prod(arg("int"), opt(None, "opt", "int"))), sw("f", "flag")), "h"),
    ("cref_subparsers", prod(wrap("cref", arg("string")), wrap("cref", opt("o", "opt", "int"))), ""),
    ("many_cref_optional_base", prod(many(wrap("cref", arg("int"))), optional(wrap("base", opt(None, "opt", "string")))), ""),
    ("commands_shared_names", commands(sw(None, "flag"), ("ca", opt(None, "opt", "int")), ("cb", opt(None, "opt", "string"))), ""),
    ("commands_nested", commands(sw(None, "flag"), ("ca", commands(opt(None, "opt", "int", 7), ("cx", arg("int"))))), ""),
    ("sum_of_sums_left", sm(sm(usw(None, "flag"), usw(None, "zed")), arg("int")), ""),
    ("sum_of_sums_both", sm(sm(usw(None, "flag"), arg("int")), sm(usw(None, "zed"), arg("string"))), ""),
    ("many_product_switch", many(prod(sw("f", "flag"), arg("int"))), ""),
    ("many_product_uswitch", many(prod(usw(None, "flag"), arg("string"))), ""),
    ("opt_int_default", opt("o", "opt", "int", 3), ""),
    ("opt_string_default", opt(None, "opt", "string", "d"), ""),
    ("flag_string_short", flag("f", "flag", "string", "on", "off"), ""),
    ("help_custom_switch", prod(sw("f", "flag"), arg("int")), "H"),
    ("usage_doc_complex", prod(arg("string", "Input file"), optional(arg("string", "Output file")),
                               sw("e", "execute", "Whether to execute"),
                               opt(None, "loglevel", "enum", "v", "The level")), "h"),
    # round 3 audit: the state a *missing* error carries out of every combinator must be observable
    # through parse().  A token consumed by an alternative that then fails must come back (sum
    # continues with the right alternative on its ORIGINAL state and a missing + missing error
    # carries the state of the RIGHT error): ["--add"] must be a leftover, never a silent success.
    ("many_sum_products", many(sm(prod(usw(None, "add"), arg("string")), prod(usw(None, "del"), arg("string")))), ""),
    ("optional_sum_flagprod_arg", optional(sm(prod(usw("a", "add"), arg("int")), arg("string"))), ""),
    # ... the four overloads of combine_errors, each with a sink behind the optional so that a wrong
    # kind (other reported as missing) or a wrong state changes a successful record
    ("optional_sum_other_miss_sink", prod(optional(sm(arg("int"), usw(None, "flag"))), many(arg("string"))), ""),
    ("optional_sum_miss_other_sink", prod(optional(sm(usw(None, "flag"), arg("int"))), many(arg("string"))), ""),
    ("optional_sum_arg_arg", optional(sm(arg("int"), arg("enum"))), ""),
    ("optional_sum_products_sink", prod(optional(sm(prod(arg("int"), arg("int")), prod(usw(None, "flag"), arg("int")))), many(arg("string"))), ""),
    # ... sums nested in sums (the state of the innermost right error wins), under optional and many
    ("optional_sum_nested_right", optional(sm(prod(usw(None, "add"), arg("int")),
                                              sm(prod(usw(None, "del"), arg("int")), prod(usw(None, "mod"), arg("int"))))), ""),
    ("many_sum_nested_left", many(sm(sm(prod(usw(None, "add"), arg("string")), prod(usw(None, "del"), arg("string"))),
                                     prod(usw(None, "mod"), arg("string")))), ""),
    # ... commands as an alternative of a sum (its missing error carries the sub-parser's state)
    ("optional_sum_commands_sink", prod(optional(sm(usw(None, "zed"), commands(sw(None, "flag"), ("ca", arg("int"))))), many(arg("string"))), ""),
    ("sum_commands_left_many", sm(commands(sw(None, "flag"), ("ca", arg("int"))), many(arg("string"))), ""),
    # ... option values that look like flags / option names of the same parser
    ("opt_then_switch", prod(opt(None, "opt", "string"), sw("f", "flag")), ""),
    ("many_arg_opt_opt", prod(many(arg("string")), opt(None, "opt", "string"), opt(None, "zed", "string", "d")), ""),
    # definitions that are not well formed (constructor outcome only)
    ("bad_flag_names", flag("flag", "flag", "int", 1, 0), ""),
    ("bad_flag_values", flag(None, "flag", "int", 0, 0), ""),
    ("bad_flag_string_values", flag("f", "flag", "string", "a", "a"), ""),
    ("bad_option_names", opt("opt", "opt", "int"), ""),
    ("bad_switch_names", sw("flag", "flag"), ""),
    ("bad_unit_switch_names", usw("flag", "flag"), ""),
    ("bad_product_flags", prod(sw(None, "flag"), flag(None, "flag", "int", 1, 0)), ""),
    ("bad_product_short_clash", prod(sw("f", "flag"), opt("f", "opt", "int")), ""),
    ("bad_product_long_vs_short", prod(sw(None, "f"), sw("f", "flag")), ""),
    ("bad_product_nested", prod(arg("int"), optional(usw(None, "flag")), many(opt(None, "flag", "int"))), ""),
    ("bad_product_sum_right", prod(sw(None, "flag"), sm(usw(None, "zed"), usw(None, "flag"))), ""),
    ("bad_product_sum_left_option", prod(opt(None, "opt", "int"), sm(opt(None, "opt", "string"), usw(None, "zed"))), ""),
    ("bad_product_sum_right_option", prod(opt(None, "opt", "int"), sm(usw(None, "zed"), opt(None, "opt", "string"))), ""),
    ("bad_product_base", prod(wrap("base", sw(None, "flag")), wrap("cref", usw(None, "flag"))), ""),
    ("bad_commands_names", commands(unit(), ("ca", unit()), ("ca", arg("int"))), ""),
]

CUSTOM_HELP = ("h", "assist")             # help_switch{short_name "h", long_name "assist"}
MANDATORY = ["--zz", "-", "--", "5", "w"]
FILLERS = ["7", "v", "-z", "x"]
EXTRA = ["", "-5", "5w", "--opt=5"]      # only used by the random long vectors of the thorough tier
ENUM = ["w", "v"]                          # enumerators of c03::color, in order

# ----------------------------------------------------------------------------- helpers


def cps(s):
    return [ord(c) for c in s]


def render(ty, v):
    """The harness renders values with the same convention (c03::render)."""
    if ty == "int":
        return "i:%d" % v
    if ty == "unsigned":
        return "u:%d" % v
    if ty == "string":
        return "s:" + v
    if ty == "enum":
        return "e:%d" % ENUM.index(v)
    raise ValueError(ty)


CPP_TYPE = {"int": "int", "unsigned": "unsigned", "string": "std::string", "enum": "c03::color"}


def cpp_value(ty, v):
    if ty == "int":
        return "%d" % v
    if ty == "unsigned":
        return "%dU" % v
    if ty == "string":
        return 'std::string{"%s"}' % v
    if ty == "enum":
        return "c03::color::%s" % v
    raise ValueError(ty)


class Numbering:
    def __init__(self):
        self.labels = 0
        self.nodes = 0
        self.tags = 0
        self.args = 0


def annotate(p, nb):
    """assign node ids (preorder), labels, sub-command tags"""
    nb.nodes += 1
    p["n"] = nb.nodes
    k = p["k"]
    if k in ("argument", "flag", "switch", "unit_switch", "option", "unit", "sum"):
        nb.labels += 1
        p["label"] = "L%d" % nb.labels
    if k == "argument":
        nb.args += 1
        p["name"] = "a%d" % nb.args
    if k == "wrap":
        nb.wraps = getattr(nb, "wraps", 0) + 1
        p["w"] = nb.wraps
    if k in ("optional", "many", "wrap"):
        annotate(p["sub"], nb)
    elif k in ("product", "sum"):
        annotate(p["l"], nb)
        annotate(p["r"], nb)
    elif k == "commands":
        annotate(p["common"], nb)
        for s in p["subs"]:
            nb.tags += 1
            s["tag"] = "T%d" % nb.tags
            annotate(s["p"], nb)


def own_tokens(p, acc):
    k = p["k"]
    if k in ("flag", "switch", "unit_switch", "option"):
        for t in ["--" + p["long"]] + (["-" + p["short"]] if p["short"] is not None else []):
            if t not in acc:
                acc.append(t)
    elif k in ("optional", "many", "wrap"):
        own_tokens(p["sub"], acc)
    elif k in ("product", "sum"):
        own_tokens(p["l"], acc)
        own_tokens(p["r"], acc)
    elif k == "commands":
        own_tokens(p["common"], acc)
        for s in p["subs"]:
            if s["name"] not in acc:
                acc.append(s["name"])
            own_tokens(s["p"], acc)
    return acc


def to_json(p):
    """AST as loaded by Options.tla: names as code point sequences, values rendered"""
    k = p["k"]
    j = {"k": k, "n": p["n"]}
    if "label" in p:
        j["label"] = p["label"]
    if k == "argument":
        j["ty"] = p["ty"]
        j["name"] = cps(p["name"])
    if k in ("argument", "flag", "switch", "option"):
        j["help"] = [] if p.get("help") is None else [cps(w) for w in p["help"].split()]
    if k == "wrap":
        j["how"] = p["how"]
        j["sub"] = to_json(p["sub"])
    if k in ("flag", "switch", "unit_switch", "option"):
        j["short"] = [] if p["short"] is None else [cps(p["short"])]
        j["long"] = cps(p["long"])
    if k == "flag":
        j["ty"] = p["ty"]
        j["active"] = render(p["ty"], p["active"])
        j["inactive"] = render(p["ty"], p["inactive"])
    if k == "option":
        j["ty"] = p["ty"]
        j["default"] = [] if p["default"] is None else [render(p["ty"], p["default"])]
        # the text operator<< prints for the default value (shown by usage())
        j["default_text"] = [] if p["default"] is None else [cps(str(p["default"]))]
    if k in ("optional", "many"):
        j["sub"] = to_json(p["sub"])
    if k in ("product", "sum"):
        j["l"] = to_json(p["l"])
        j["r"] = to_json(p["r"])
    if k == "commands":
        j["common"] = to_json(p["common"])
        j["subs"] = [{"name": cps(s["name"]), "tag": s["tag"], "p": to_json(s["p"])} for s in p["subs"]]
    return j


def short_cpp(p):
    if p["short"] is None:
        return "fcppt::options::optional_short_name{}"
    return 'fcppt::options::optional_short_name{fcppt::options::short_name{FCPPT_TEXT("%s")}}' % p["short"]


def long_cpp(p):
    return 'fcppt::options::long_name{FCPPT_TEXT("%s")}' % p["long"]


NOHELP = "fcppt::options::optional_help_text{}"


def help_cpp(p):
    if p.get("help") is None:
        return NOHELP
    return 'fcppt::options::optional_help_text{fcppt::options::help_text{FCPPT_TEXT("%s")}}' % p["help"]


def leaves_of(p):
    if p["k"] == "product":
        return leaves_of(p["l"]) + leaves_of(p["r"])
    return [p]


def element_type(p):
    k = p["k"]
    if k in ("argument", "flag", "option"):
        return CPP_TYPE[p["ty"]]
    if k == "switch":
        return "bool"
    if k in ("unit_switch", "unit"):
        return "fcppt::unit"
    raise ValueError("base_permuted needs a product of leaves")


def to_cpp(p):
    k = p["k"]
    if k == "argument":
        return 'fcppt::options::argument<%s, %s>{fcppt::options::long_name{FCPPT_TEXT("%s")}, %s}' % (
            p["label"], CPP_TYPE[p["ty"]], p["name"], help_cpp(p))
    if k == "flag":
        return "fcppt::options::flag<%s, %s>{%s, %s, fcppt::options::make_active_value(%s), fcppt::options::make_inactive_value(%s), %s}" % (
            p["label"], CPP_TYPE[p["ty"]], short_cpp(p), long_cpp(p), cpp_value(p["ty"], p["active"]),
            cpp_value(p["ty"], p["inactive"]), help_cpp(p))
    if k == "switch":
        return "fcppt::options::switch_<%s>{%s, %s, %s}" % (p["label"], short_cpp(p), long_cpp(p), help_cpp(p))
    if k == "unit_switch":
        return "fcppt::options::unit_switch<%s>{%s, %s}" % (p["label"], short_cpp(p), long_cpp(p))
    if k == "option":
        ty = CPP_TYPE[p["ty"]]
        d = ("fcppt::options::no_default_value<%s>()" % ty if p["default"] is None else
             "fcppt::options::make_default_value(fcppt::optional::make(%s))" % cpp_value(p["ty"], p["default"]))
        return "fcppt::options::option<%s, %s>{%s, %s, %s, %s}" % (p["label"], ty, short_cpp(p), long_cpp(p), d, help_cpp(p))
    if k == "unit":
        return "fcppt::options::unit<%s>{}" % p["label"]
    if k == "wrap":
        inner = to_cpp(p["sub"])
        if p["how"] == "cref":
            # the referenced parser is a function-local static of the shape's namespace
            return "fcppt::make_cref(cref_%d())" % p["w"]
        if p["how"] == "base":
            return ("[] {\n      auto inner{%s};\n      return fcppt::options::make_base<fcppt::options::result_of<decltype(inner)>>("
                    "std::move(inner));\n    }()" % inner)
        if p["how"] == "base_permuted":
            els = ", ".join("fcppt::record::element<%s, %s>" % (l["label"], element_type(l)) for l in reversed(leaves_of(p["sub"])))
            return "fcppt::options::make_base<fcppt::record::object<%s>>(%s)" % (els, inner)
        raise ValueError(p["how"])
    if k == "optional":
        return "fcppt::options::make_optional(%s)" % to_cpp(p["sub"])
    if k == "many":
        return "fcppt::options::make_many(%s)" % to_cpp(p["sub"])
    if k == "product":
        parts = [p["l"]]
        r = p["r"]
        chain = p["chain"]
        while chain:
            parts.append(r["l"])
            chain = r["chain"]
            r = r["r"]
        parts.append(r)
        return "fcppt::options::apply(\n      %s)" % ",\n      ".join(to_cpp(x) for x in parts)
    if k == "sum":
        return "fcppt::options::make_sum<%s>(\n      %s,\n      %s)" % (p["label"], to_cpp(p["l"]), to_cpp(p["r"]))
    if k == "commands":
        subs = ['fcppt::options::make_sub_command<%s>(fcppt::string{FCPPT_TEXT("%s")}, %s, %s)' % (
            s["tag"], s["name"], to_cpp(s["p"]), NOHELP) for s in p["subs"]]
        return "fcppt::options::make_commands(\n      %s,\n      %s)" % (to_cpp(p["common"]), ",\n      ".join(subs))
    raise ValueError(k)


def crefs(p, acc):
    """cref wrappers, innermost first"""
    k = p["k"]
    if k in ("optional", "many", "wrap"):
        crefs(p["sub"], acc)
        if k == "wrap" and p["how"] == "cref":
            acc.append(p)
    elif k in ("product", "sum"):
        crefs(p["l"], acc)
        crefs(p["r"], acc)
    elif k == "commands":
        crefs(p["common"], acc)
        for s in p["subs"]:
            crefs(s["p"], acc)
    return acc


def build():
    tokens = []

    def gid(t):
        if t not in tokens:
            tokens.append(t)
        return tokens.index(t) + 1

    shapes = []
    for i, (name, ast, fl) in enumerate(FAMILY):
        p = json.loads(json.dumps(ast))
        nb = Numbering()
        annotate(p, nb)
        hs = (None, "help") if "h" in fl else CUSTOM_HELP if "H" in fl else None
        own = ([] if hs is None else ["--" + hs[1]] + (["-" + hs[0]] if hs[0] else [])) + own_tokens(p, [])
        assert len(own) <= 4, (name, own)
        alpha = own + MANDATORY
        for f in FILLERS:
            if len(alpha) < 9 and f not in alpha:
                alpha.append(f)
        assert len(alpha) == 9 and len(set(alpha)) == 9, (name, alpha)
        shapes.append({"id": i + 1, "name": name, "help": hs is not None, "hs": hs or (None, "help"), "cheap": "c" in fl,
                       "alphabet": [gid(t) for t in alpha], "extra": [gid(t) for t in EXTRA],
                       "nlabels": nb.labels, "ntags": nb.tags, "ast": p})
    return tokens, shapes


HEADER = """// GENERATED by /verif/gen/options_family.py - do not edit.
#define C03_UNITS_INCLUDE_WRAP_HEADERS
#include "c03_options.hpp"
"""


def emit(outdir, nparts):
    tokens, shapes = build()
    os.makedirs(outdir, exist_ok=True)
    js = {"tokens": [cps(t) for t in tokens],
          "shapes": [{"id": s["id"], "name": s["name"], "help": s["help"], "cheap": s["cheap"],
                      "hshort": [] if s["hs"][0] is None else [cps(s["hs"][0])], "hlong": cps(s["hs"][1]),
                      "alphabet": s["alphabet"], "extra": s["extra"], "p": to_json(s["ast"])} for s in shapes]}
    write_if_changed(os.path.join(outdir, "parsers.json"), json.dumps(js, separators=(",", ":")) + "\n")
    parts = [[] for _ in range(nparts)]
    for s in shapes:
        parts[(s["id"] - 1) % nparts].append(s)
    files = []
    LAYOUT.clear()
    for k, part in enumerate(parts):
        out = [HEADER]
        for s in part:
            first = sum(x.count("\n") + 1 for x in out) + 1
            out += shape_unit(s)
            LAYOUT[s["id"]] = (k, first, sum(x.count("\n") + 1 for x in out))
        f = os.path.join(outdir, "c03_shapes_%d.cpp" % k)
        write_if_changed(f, "\n".join(out))
        files.append(f)
    reg = [HEADER]
    for s in shapes:
        reg.append("void c03_run_shape_%d(c03::driver &);" % s["id"])
    reg.append("namespace c03\n{")
    reg.append("std::vector<std::string> const &tokens()\n{\n  static std::vector<std::string> const t{%s};\n  return t;\n}" % ", ".join(
        'std::string{"%s"}' % t for t in tokens))
    reg.append("std::vector<shape_info> const &shapes()\n{\n  static std::vector<shape_info> const s{")
    for s in shapes:
        reg.append('      shape_info{%d, "%s", {%s}, {%s}, %s, "%s", "%s", %s, &c03_run_shape_%d},' % (
            s["id"], s["name"], ", ".join(map(str, s["alphabet"])), ", ".join(map(str, s["extra"])),
            "true" if s["help"] else "false", s["hs"][0] or "", s["hs"][1],
            "true" if s["cheap"] else "false", s["id"]))
    reg.append("  };\n  return s;\n}\n}\n")
    f = os.path.join(outdir, "c03_registry.cpp")
    write_if_changed(f, "\n".join(reg))
    files.append(f)
    return files, js


WRAP_HEADERS = """#include <fcppt/make_cref.hpp>
#include <fcppt/reference_impl.hpp>
#include <fcppt/unique_ptr_impl.hpp>
#include <fcppt/options/base.hpp>
#include <fcppt/options/base_unique_ptr.hpp>
#include <fcppt/options/make_base.hpp>
#include <utility>"""


def has_wrap(p):
    if isinstance(p, dict):
        return p.get("k") == "wrap" or any(has_wrap(v) for v in p.values())
    if isinstance(p, list):
        return any(has_wrap(v) for v in p)
    return False


def shape_unit(s):
    """the C++ of one shape (namespace with labels, make(), run function)"""
    out = ([WRAP_HEADERS] if has_wrap(s["ast"]) else []) + ["namespace s%d\n{" % s["id"]]
    for l in range(1, s["nlabels"] + 1):
        out.append("FCPPT_RECORD_MAKE_LABEL(L%d);" % l)
    for t in range(1, s["ntags"] + 1):
        out.append("FCPPT_RECORD_MAKE_LABEL(T%d);" % t)
    out.append("// %s" % s["name"])
    for w in crefs(s["ast"], []):
        out.append("inline auto const &cref_%d()\n{\n  static auto const object{%s};\n  return object;\n}" % (w["w"], to_cpp(w["sub"])))
    out.append("inline auto make()\n{\n  return %s;\n}\n}" % to_cpp(s["ast"]))
    out.append("void c03_run_shape_%d(c03::driver &_d)\n{\n  _d.run<%s>(%d, [] { return s%d::make(); });\n}\n" % (
        s["id"], "true" if s["help"] else "false", s["id"], s["id"]))
    return out


LAYOUT = {}     # shape id -> (unit number, first line, last line) of the units written by emit()


def emit_reduced(outdir, nparts, k, exclude):
    """unit k of emit() without the shapes in `exclude` (shapes the tree under test does not compile)"""
    tokens, shapes = build()
    out = [HEADER]
    for s in shapes:
        if (s["id"] - 1) % nparts == k and s["id"] not in exclude:
            out += shape_unit(s)
    f = os.path.join(outdir, "c03_reduced_%d.cpp" % k)
    write_if_changed(f, "\n".join(out))
    return f


def emit_isolated(outdir, ids):
    """one translation unit per shape (used when a unit of emit() does not compile against the tree
    under test, to find the shapes that do not compile) -> {shape id: file}"""
    tokens, shapes = build()
    res = {}
    for s in shapes:
        if s["id"] in ids:
            f = os.path.join(outdir, "c03_iso_%d.cpp" % s["id"])
            write_if_changed(f, "\n".join([HEADER] + shape_unit(s)))
            res[s["id"]] = f
    return res


def write_if_changed(path, text):
    try:
        if open(path).read() == text:
            return
    except OSError:
        pass
    with open(path, "w") as f:
        f.write(text)


if __name__ == "__main__":
    out = sys.argv[1] if len(sys.argv) > 1 else os.path.join(os.path.dirname(os.path.dirname(os.path.abspath(__file__))), "build", "gen", "c03")
    n = int(sys.argv[2]) if len(sys.argv) > 2 else 16
    files, js = emit(out, n)
    print("%d shapes, %d tokens, %d files -> %s" % (len(js["shapes"]), len(js["tokens"]), len(files), out))
